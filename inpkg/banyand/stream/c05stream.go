//go:build verif

package stream

import (
	"context"
	"fmt"
	"os"
	"sort"
	"sync/atomic"

	"github.com/apache/skywalking-banyandb/api/common"
	databasev1 "github.com/apache/skywalking-banyandb/api/proto/banyandb/database/v1"
	"github.com/apache/skywalking-banyandb/banyand/internal/storage"
	"github.com/apache/skywalking-banyandb/banyand/protector"
	"github.com/apache/skywalking-banyandb/pkg/convert"
	"github.com/apache/skywalking-banyandb/pkg/fs"
	"github.com/apache/skywalking-banyandb/pkg/index"
	"github.com/apache/skywalking-banyandb/pkg/logger"
	pbv1 "github.com/apache/skywalking-banyandb/pkg/pb/v1"
	"github.com/apache/skywalking-banyandb/pkg/query/model"
	"github.com/apache/skywalking-banyandb/pkg/run"
	"github.com/apache/skywalking-banyandb/pkg/timestamp"
	"github.com/apache/skywalking-banyandb/pkg/verif/sched"
)

// V5SRow is one stream element of the harness alphabet (one tag family "fam" with one int64 tag "v").
type V5SRow struct {
	Series uint64
	TS     int64
	ID     uint64
	Val    int64
}

const (
	v5sFamily = "fam"
	v5sTag    = "v"
)

// V5SFS wraps the real file system and counts recursive removals per path.
type V5SFS struct {
	fs.FileSystem
	RM map[string]int
	// Hook makes hard-link / remove / create / delete calls scheduling points of the controlled scheduler.
	Hook bool
}

// MustRMAll counts and forwards.
func (f *V5SFS) MustRMAll(path string) {
	if f.Hook {
		sched.Point(sched.KFS, nil, "MustRMAll")
	}
	sched.Own(func() { f.RM[path]++ })
	f.FileSystem.MustRMAll(path)
}

// CreateHardLink is a scheduling point when Hook is set.
func (f *V5SFS) CreateHardLink(src, dst string, filter func(string) bool) error {
	if f.Hook {
		sched.Point(sched.KFS, nil, "CreateHardLink")
	}
	return f.FileSystem.CreateHardLink(src, dst, filter)
}

// CreateFile is a scheduling point when Hook is set.
func (f *V5SFS) CreateFile(name string, permission fs.Mode) (fs.File, error) {
	if f.Hook {
		sched.Point(sched.KFS, nil, "CreateFile")
	}
	return f.FileSystem.CreateFile(name, permission)
}

// DeleteFile is a scheduling point when Hook is set.
func (f *V5SFS) DeleteFile(name string) error {
	if f.Hook {
		sched.Point(sched.KFS, nil, "DeleteFile")
	}
	return f.FileSystem.DeleteFile(name)
}

// v5sSnapRec remembers a snapshot that was current at some instant (snapshot.decRef truncates s.parts when the last
// reference goes, so the part list is copied).
type v5sSnapRec struct {
	snp   *snapshot
	parts []*partWrapper
	ps    []*part // pw.p at record time (a released memory part's wrapper forgets it)
	mem   []bool
	ids   []uint64
	epoch uint64
	count uint64 // elements held by the parts (sum of the part metadata), taken while the snapshot was current
}

// V5STable drives a real stream tsTable through its step functions; the background loops are never started, the
// harness threads play the introducer / flusher / merger and call the same functions the loops call.
type V5STable struct {
	tst   *tsTable
	FS    *V5SFS
	sm    *stream
	seen  map[*snapshot]*v5sSnapRec
	Dir   string
	recs  []*v5sSnapRec
	epoch uint64
}

// V5SOpen opens (or recovers) a table at dir. withIndex also opens the element index (needed by TakeFileSnapshot).
func V5SOpen(dir string, withIndex bool) *V5STable {
	lfs := &V5SFS{FileSystem: fs.NewLocalFileSystem(), RM: map[string]int{}}
	lfs.MkdirIfNotExist(dir, 0o755)
	tst, epoch, err := initTSTable(lfs, dir, common.Position{}, logger.GetLogger("verif"),
		option{protector: protector.Nop{}, mergePolicy: newDefaultMergePolicyForTesting()}, nil, withIndex)
	if err != nil {
		panic(err)
	}
	tst.loopCloser = run.NewCloser(1)
	if tst.snapshot == nil {
		epoch = 0x1000 // fresh table: initTSTable hands out a wall-clock epoch; the harness owns the clock
	}
	sm := &stream{
		schema: &databasev1.Stream{Entity: &databasev1.Entity{TagNames: []string{"e"}}},
		l:      logger.GetLogger("verif"),
	}
	sm.indexSchema.Store(indexSchema{})
	v := &V5STable{tst: tst, epoch: epoch + 1, FS: lfs, Dir: dir, sm: sm, seen: map[*snapshot]*v5sSnapRec{}}
	v.Record()
	return v
}

// Record notes the table's current snapshot (harness observation; call inside sched.Observe when attached). Every
// snapshot a query can have pinned was current at some instant and is recorded either by the introducer role after
// its step or by the next observation while it is still current.
func (v *V5STable) Record() {
	s := v.tst.snapshot
	if s == nil || v.seen[s] != nil {
		return
	}
	r := &v5sSnapRec{snp: s, epoch: s.epoch, parts: append([]*partWrapper(nil), s.parts...)}
	for _, pw := range r.parts {
		r.ps = append(r.ps, pw.p)
		r.mem = append(r.mem, pw.mp != nil)
		r.ids = append(r.ids, pw.ID())
		r.count += pw.p.partMetadata.TotalCount
	}
	v.seen[s] = r
	v.recs = append(v.recs, r)
}

// V5SIntro is a prepared memory part awaiting introduction.
type V5SIntro struct{ ind *introduction }

func v5sElements(rows []V5SRow) *elements {
	es := &elements{}
	for _, r := range rows {
		es.seriesIDs = append(es.seriesIDs, common.SeriesID(r.Series))
		es.timestamps = append(es.timestamps, r.TS)
		es.elementIDs = append(es.elementIDs, r.ID)
		es.tagFamilies = append(es.tagFamilies, []tagValues{{tag: v5sFamily, values: []*tagValue{
			{tag: v5sTag, valueType: pbv1.ValueTypeInt64, value: convert.Int64ToBytes(r.Val)},
		}}})
	}
	return es
}

// PrepareWrite builds the memory part of one batch (what mustAddElements does before handing it to the introducer).
func (v *V5STable) PrepareWrite(rows []V5SRow) *V5SIntro {
	mp := generateMemPart()
	mp.mustInitFromElements(v5sElements(rows))
	p := openMemPart(mp)
	ind := &introduction{part: newPartWrapper(mp, p)}
	ind.part.p.partMetadata.ID = atomic.AddUint64(&v.tst.curPartID, 1)
	v.tst.addPendingDataCount(int64(mp.partMetadata.TotalCount))
	return &V5SIntro{ind: ind}
}

// IntroducePart is the introducer step for a memory part; returns the epoch it published.
func (v *V5STable) IntroducePart(in *V5SIntro) uint64 {
	e := v.epoch
	v.tst.introducePart(in.ind, e)
	v.epoch++
	return e
}

// Write = PrepareWrite + IntroducePart.
func (v *V5STable) Write(rows []V5SRow) uint64 { return v.IntroducePart(v.PrepareWrite(rows)) }

// V5SFlush is the file-producing half of a flush.
type V5SFlush struct{ ind *flusherIntroduction }

// FlushA writes every memory part of the current snapshot to disk and opens the file parts (body of tsTable.flush up
// to the hand-over to the introducer). Returns nil when there is nothing to flush.
func (v *V5STable) FlushA() *V5SFlush {
	snp := v.tst.currentSnapshot()
	if snp == nil {
		return nil
	}
	defer snp.decRef()
	ind := &flusherIntroduction{flushed: map[uint64]*partWrapper{}}
	for _, pw := range snp.parts {
		if pw.mp == nil || pw.mp.partMetadata.TotalCount < 1 {
			continue
		}
		pw.mp.mustFlush(v.tst.fileSystem, partPath(v.tst.root, pw.ID()))
		newPW := newPartWrapper(nil, mustOpenFilePart(pw.ID(), v.tst.root, v.tst.fileSystem))
		newPW.p.partMetadata.ID = pw.ID()
		ind.flushed[newPW.ID()] = newPW
	}
	if len(ind.flushed) == 0 {
		return nil
	}
	return &V5SFlush{ind: ind}
}

// IDs of the parts this flush produced, ascending.
func (f *V5SFlush) IDs() []uint64 {
	var ids []uint64
	for id := range f.ind.flushed {
		ids = append(ids, id)
	}
	sort.Slice(ids, func(i, j int) bool { return ids[i] < ids[j] })
	return ids
}

// AdoptFlush opens already produced part directories (same ids as the memory parts they replace) as the result of a
// flush; the harness uses it to take the deterministic file production out of the per-execution path.
func (v *V5STable) AdoptFlush(ids []uint64) *V5SFlush {
	ind := &flusherIntroduction{flushed: map[uint64]*partWrapper{}}
	for _, id := range ids {
		newPW := newPartWrapper(nil, mustOpenFilePart(id, v.tst.root, v.tst.fileSystem))
		newPW.p.partMetadata.ID = id
		ind.flushed[id] = newPW
	}
	return &V5SFlush{ind: ind}
}

// FlushB is the introducer step for flushed parts.
func (v *V5STable) FlushB(f *V5SFlush) uint64 {
	e := v.epoch
	v.tst.introduceFlushed(f.ind, e)
	v.epoch++
	return e
}

// V5SMerge is the file-producing half of a merge.
type V5SMerge struct {
	mi  *mergerIntroduction
	IDs []uint64
	New uint64
}

// AdoptMerge opens an already produced merged part directory as the result of merging the given parts.
func (v *V5STable) AdoptMerge(newID uint64, merged []uint64) *V5SMerge {
	want := map[uint64]struct{}{}
	for _, id := range merged {
		want[id] = struct{}{}
	}
	p := mustOpenFilePart(newID, v.tst.root, v.tst.fileSystem)
	p.partMetadata.ID = newID
	for atomic.LoadUint64(&v.tst.curPartID) < newID {
		atomic.AddUint64(&v.tst.curPartID, 1)
	}
	return &V5SMerge{mi: &mergerIntroduction{newPart: newPartWrapper(nil, p), merged: want, creator: snapshotCreatorMerger}, IDs: merged, New: newID}
}

// MergeA merges the given file parts of the current snapshot into a new part (real mergeParts).
func (v *V5STable) MergeA(ids []uint64) *V5SMerge {
	snp := v.tst.currentSnapshot()
	if snp == nil {
		return nil
	}
	defer snp.decRef()
	want := map[uint64]struct{}{}
	for _, id := range ids {
		want[id] = struct{}{}
	}
	var parts []*partWrapper
	for _, pw := range snp.parts {
		if _, ok := want[pw.ID()]; ok && pw.mp == nil {
			parts = append(parts, pw)
		}
	}
	if len(parts) < 2 || len(parts) != len(ids) {
		return nil
	}
	closeCh := make(chan struct{})
	np, err := v.tst.mergeParts(v.tst.fileSystem, closeCh, parts, atomic.AddUint64(&v.tst.curPartID, 1), v.tst.root)
	if err != nil {
		panic(err)
	}
	return &V5SMerge{mi: &mergerIntroduction{newPart: np, merged: want, creator: snapshotCreatorMerger}, IDs: ids, New: np.ID()}
}

// MergeB is the introducer step for a merged part.
func (v *V5STable) MergeB(m *V5SMerge) uint64 {
	e := v.epoch
	v.tst.introduceMerged(m.mi, e)
	v.epoch++
	return e
}

// GC removes manifests that are no longer live (what the introducer loop does after a flush/merge introduction).
func (v *V5STable) GC() { v.tst.gc.clean() }

// FileParts lists the ids of the file parts of the current snapshot.
func (v *V5STable) FileParts() []uint64 {
	snp := v.tst.currentSnapshot()
	if snp == nil {
		return nil
	}
	defer snp.decRef()
	var ids []uint64
	for _, pw := range snp.parts {
		if pw.mp == nil {
			ids = append(ids, pw.ID())
		}
	}
	return ids
}

// V5SPart describes one part used by a query or contained in a pinned view.
type V5SPart struct {
	Path string
	ID   uint64
	Ref  int32 // reference count of its wrapper (-1000: wrapper unknown to the harness)
	Mem  bool
	// Gone: a file part whose directory is not on disk; a memory part whose buffers were handed back to the pool.
	Gone bool
}

func (v *V5STable) describe(p *part) V5SPart {
	out := V5SPart{ID: p.partMetadata.ID, Path: p.path, Ref: -1000}
	for _, r := range v.recs {
		for i, pw := range r.parts {
			if r.ps[i] != p {
				continue
			}
			out.Ref = atomic.LoadInt32(&pw.ref)
			out.Mem = r.mem[i]
			if out.Mem && pw.mp == nil {
				out.Gone = true
			}
		}
	}
	if !out.Mem {
		if _, err := os.Stat(p.path); err != nil {
			out.Gone = true
		}
	}
	return out
}

// V5SView is a plainly pinned snapshot (tsTable.currentSnapshot), used for the quiescence observation.
type V5SView struct {
	v   *V5STable
	snp *snapshot
}

// Pin is tsTable.currentSnapshot (nil when the table holds nothing / is closed).
func (v *V5STable) Pin() *V5SView {
	snp := v.tst.currentSnapshot()
	if snp == nil {
		return nil
	}
	return &V5SView{v: v, snp: snp}
}

// Epoch of the pinned snapshot.
func (w *V5SView) Epoch() uint64 { return w.snp.epoch }

// Ref is the snapshot's reference count (harness observation).
func (w *V5SView) Ref() int32 { return atomic.LoadInt32(&w.snp.ref) }

// Parts lists the parts of the pinned view.
func (w *V5SView) Parts() []V5SPart {
	var out []V5SPart
	for _, pw := range w.snp.parts {
		p := V5SPart{ID: pw.ID(), Mem: pw.mp != nil, Ref: atomic.LoadInt32(&pw.ref)}
		if pw.p != nil {
			p.Path = pw.p.path
		}
		if p.Path != "" {
			if _, err := os.Stat(p.Path); err != nil {
				p.Gone = true
			}
		}
		out = append(out, p)
	}
	return out
}

// Unpin releases the view.
func (w *V5SView) Unpin() { w.snp.decRef() }

// v5sPM is the memory protector handed to the query code: the two calls the scan code makes after it pinned the
// snapshot (AvailableBytes while scanning blocks, AcquireResource at the end of idxResult.scanParts, i.e. between
// the scan phase and the data-load phase) are forwarded to the harness, which may yield there.
type v5sPM struct {
	protector.Nop
	q *V5SQuery
}

func (p *v5sPM) AvailableBytes() int64 {
	p.q.hook("AvailableBytes")
	return -1
}

func (p *v5sPM) AcquireResource(_ context.Context, _ uint64) error {
	p.q.hook("AcquireResource")
	return nil
}

// v5sSegment stands in for the storage segment of the time-ordered query path: one table, a fixed series list.
type v5sSegment struct {
	tst  *tsTable
	sids []uint64
	decs int
}

func (s *v5sSegment) DecRef()                               { s.decs++ }
func (s *v5sSegment) GetTimeRange() timestamp.TimeRange     { return timestamp.TimeRange{} }
func (s *v5sSegment) IndexDB() storage.IndexDB              { return nil }
func (s *v5sSegment) Location() string                      { return "" }
func (s *v5sSegment) SeriesIndexStats() (int64, int64)      { return 0, 0 }
func (s *v5sSegment) Tables() ([]*tsTable, []storage.Cache) { return []*tsTable{s.tst}, nil }
func (s *v5sSegment) TablesWithShardIDs() ([]*tsTable, []common.ShardID, []storage.Cache) {
	return []*tsTable{s.tst}, []common.ShardID{0}, nil
}

func (s *v5sSegment) CreateTSTableIfNotExist(common.ShardID) (*tsTable, error) { return s.tst, nil }

func (s *v5sSegment) Lookup(context.Context, []*pbv1.Series) (pbv1.SeriesList, error) {
	var sl pbv1.SeriesList
	for _, id := range s.sids {
		sl = append(sl, &pbv1.Series{ID: common.SeriesID(id)})
	}
	return sl, nil
}

// v5sDocs stands in for the element index of the index-ordered path: it yields the given documents in order.
type v5sDocs struct {
	docs []V5SRow
	i    int
}

func (d *v5sDocs) Next() bool { d.i++; return d.i <= len(d.docs) }
func (d *v5sDocs) Val() *index.DocumentResult {
	r := d.docs[d.i-1]
	return &index.DocumentResult{DocID: r.ID, SeriesID: common.SeriesID(r.Series), Timestamp: r.TS}
}
func (d *v5sDocs) Close() error { return nil }

// V5SQuery is one query evaluated by the repository's own query objects (tsResult / idxResult); the snapshot is pinned
// and released by that code, not by the harness.
type V5SQuery struct {
	v   *V5STable
	ts  *tsResult
	idx *idxResult
	seg *v5sSegment
	// Hold is called from inside the query code (see v5sPM) with the name of the call and its ordinal within the
	// query (0-based).
	Hold  func(where string, n int)
	minTS int64
	maxTS int64
	hooks int
}

func (q *V5SQuery) hook(where string) {
	n := q.hooks
	q.hooks++
	if q.Hold != nil {
		q.Hold(where, n)
	}
}

func v5sOptions(minTS, maxTS int64, limit int) queryOptions {
	var qo queryOptions
	qo.MaxElementSize = limit
	qo.TagProjection = []model.TagProjection{{Family: v5sFamily, Names: []string{v5sTag}}}
	qo.schemaTagTypes = map[string]pbv1.ValueType{v5sTag: pbv1.ValueTypeInt64}
	qo.minTimestamp, qo.maxTimestamp = minTS, maxTS
	return qo
}

// NewTSQuery prepares a time-ordered query (what stream.Query builds in executeTimeSeriesQuery) for the given series
// and inclusive time range.
func (v *V5STable) NewTSQuery(sids []uint64, minTS, maxTS int64) *V5SQuery {
	q := &V5SQuery{v: v, minTS: minTS, maxTS: maxTS}
	q.seg = &v5sSegment{tst: v.tst, sids: sids}
	q.ts = &tsResult{
		segments: []storage.Segment[*tsTable, option]{q.seg},
		qo:       v5sOptions(minTS, maxTS, 1000),
		sm:       v.sm,
		pm:       &v5sPM{q: q},
		l:        v.sm.l,
		asc:      true,
	}
	return q
}

// NewIdxQuery prepares an index-ordered query (what executeIndexedQuery builds) whose sorted index iterator yields
// docs in the given order, at most batch of them per Pull.
func (v *V5STable) NewIdxQuery(docs []V5SRow, batch int) *V5SQuery {
	q := &V5SQuery{v: v}
	for i, d := range docs {
		if i == 0 || d.TS < q.minTS {
			q.minTS = d.TS
		}
		if i == 0 || d.TS > q.maxTS {
			q.maxTS = d.TS
		}
	}
	qo := v5sOptions(0, 0, batch)
	q.idx = &idxResult{
		sortingIter: &v5sDocs{docs: docs},
		sm:          v.sm,
		pm:          &v5sPM{q: q},
		tabs:        []*tsTable{v.tst},
		qo:          qo,
		asc:         true,
	}
	return q
}

// Pull is one Pull of the query result; ok=false when the result is exhausted. Rows of the time-ordered path are
// sorted by (TS, Series) (equal timestamps of different series have no defined order); rows of the index-ordered path
// keep the order of the result and carry no series id.
func (q *V5SQuery) Pull() (rows []V5SRow, ok bool, err error) {
	var r *model.StreamResult
	if q.ts != nil {
		r = q.ts.Pull(context.Background())
	} else {
		r = q.idx.Pull(context.Background())
	}
	if r == nil {
		return nil, false, nil
	}
	if r.Error != nil {
		return nil, true, r.Error
	}
	for i := range r.Timestamps {
		row := V5SRow{TS: r.Timestamps[i], ID: r.ElementIDs[i]}
		if i < len(r.SIDs) {
			row.Series = uint64(r.SIDs[i])
		}
		if len(r.TagFamilies) != 1 || len(r.TagFamilies[0].Tags) != 1 || len(r.TagFamilies[0].Tags[0].Values) != len(r.Timestamps) {
			return nil, true, fmt.Errorf("result has a malformed tag projection")
		}
		row.Val = r.TagFamilies[0].Tags[0].Values[i].GetInt().GetValue()
		rows = append(rows, row)
	}
	if q.ts != nil {
		sort.Slice(rows, func(i, j int) bool {
			if rows[i].TS != rows[j].TS {
				return rows[i].TS < rows[j].TS
			}
			return rows[i].Series < rows[j].Series
		})
	}
	return rows, true, nil
}

// Release is the Release of the query result.
func (q *V5SQuery) Release() {
	if q.ts != nil {
		q.ts.Release()
	} else {
		q.idx.Release()
	}
}

// SegmentReleases is how often the time-ordered query released its segment.
func (q *V5SQuery) SegmentReleases() int {
	if q.seg == nil {
		return -1
	}
	return q.seg.decs
}

// queryParts are the parts the query is currently working on.
func (q *V5SQuery) queryParts() []*part {
	seen := map[*part]bool{}
	var out []*part
	add := func(p *part) {
		if p != nil && !seen[p] {
			seen[p] = true
			out = append(out, p)
		}
	}
	if q.ts != nil && q.ts.ts != nil {
		for p := range q.ts.ts.filterIndex {
			add(p)
		}
	}
	if q.idx != nil {
		for _, bc := range q.idx.data {
			if bc != nil {
				add(bc.p)
			}
		}
	}
	sort.Slice(out, func(i, j int) bool { return out[i].partMetadata.ID < out[j].partMetadata.ID })
	return out
}

// Parts describes the parts the query is currently working on (harness observation at a hold point).
func (q *V5SQuery) Parts() []V5SPart {
	var out []V5SPart
	for _, p := range q.queryParts() {
		out = append(out, q.v.describe(p))
	}
	return out
}

// SnapshotRefs are the reference counts of the snapshots the index-ordered query holds (nil for the other path, which
// keeps them in closures).
func (q *V5SQuery) SnapshotRefs() []int32 {
	if q.idx == nil {
		return nil
	}
	var out []int32
	for _, s := range q.idx.snapshots {
		out = append(out, atomic.LoadInt32(&s.ref))
	}
	return out
}

// ViewEpochs returns the epochs of all snapshots, current at some instant, whose parts overlapping the query's time
// range are exactly the parts the query works on: the point-in-time views the query may be evaluating. Empty = the
// query works on a set of parts that never was the content of the table.
func (q *V5SQuery) ViewEpochs() []uint64 {
	q.v.Record()
	mine := q.queryParts()
	var out []uint64
	for _, r := range q.v.recs {
		var in []*part
		for _, p := range r.ps {
			pm := p.partMetadata
			if q.maxTS < pm.MinTimestamp || q.minTS > pm.MaxTimestamp {
				continue
			}
			in = append(in, p)
		}
		if len(in) != len(mine) {
			continue
		}
		sort.Slice(in, func(i, j int) bool { return in[i].partMetadata.ID < in[j].partMetadata.ID })
		same := true
		for i := range in {
			if in[i] != mine[i] {
				same = false
			}
		}
		if same {
			out = append(out, r.epoch)
		}
	}
	return out
}

// Leaks compares, at quiescence (no query in flight), the reference count of every snapshot that ever was current
// and of every part wrapper such a snapshot contained with what the table alone accounts for: 1 for the current
// snapshot and for each of its parts, 0 for everything else.
func (v *V5STable) Leaks() []string {
	v.Record()
	cur := v.tst.snapshot
	inCur := map[*partWrapper]bool{}
	if cur != nil {
		for _, pw := range cur.parts {
			inCur[pw] = true
		}
	}
	found := map[string]bool{}
	done := map[*partWrapper]bool{}
	for _, r := range v.recs {
		want := int32(0)
		what := "a replaced snapshot"
		if r.snp == cur {
			want, what = 1, "the current snapshot"
		}
		if n := atomic.LoadInt32(&r.snp.ref); n != want {
			found[fmt.Sprintf("%s has ref %d at quiescence, want %d", what, n, want)] = true
		}
		for _, pw := range r.parts {
			if done[pw] {
				continue
			}
			done[pw] = true
			want, what = 0, "a part of no live snapshot"
			if inCur[pw] {
				want, what = 1, "a part of the current snapshot"
			}
			if n := atomic.LoadInt32(&pw.ref); n != want {
				found[fmt.Sprintf("%s has reference count %d at quiescence, want %d", what, n, want)] = true
			}
		}
	}
	out := make([]string, 0, len(found))
	for k := range found {
		out = append(out, k)
	}
	sort.Strings(out)
	return out
}

// TakeFileSnapshot is tsTable.TakeFileSnapshot.
func (v *V5STable) TakeFileSnapshot(dst string) (bool, error) { return v.tst.TakeFileSnapshot(dst) }

// Close is tsTable.Close.
func (v *V5STable) Close() { _ = v.tst.Close() }

// Manifests lists the *.snp files in the table directory.
func (v *V5STable) Manifests() []string {
	var out []string
	for _, e := range v.tst.fileSystem.ReadDir(v.tst.root) {
		if !e.IsDir() {
			out = append(out, e.Name())
		}
	}
	sort.Strings(out)
	return out
}

// CurrentEpoch is the epoch of the current snapshot (0 if none).
func (v *V5STable) CurrentEpoch() uint64 {
	if v.tst.snapshot == nil {
		return 0
	}
	return v.tst.snapshot.epoch
}

// NextEpoch is the epoch the next introduction will publish.
func (v *V5STable) NextEpoch() uint64 { return v.epoch }

// PartDir is the directory of a file part.
func (v *V5STable) PartDir(id uint64) string { return partPath(v.tst.root, id) }

// V5SPub is one snapshot that was current at some instant, as recorded while it was current.
type V5SPub struct {
	Parts    []uint64
	Epoch    uint64
	Elements uint64 // sum over its parts of the element count in the part metadata
}

// Published lists every recorded snapshot.
func (v *V5STable) Published() []V5SPub {
	v.Record()
	var out []V5SPub
	for _, r := range v.recs {
		out = append(out, V5SPub{Epoch: r.epoch, Elements: r.count, Parts: append([]uint64(nil), r.ids...)})
	}
	return out
}

// PrepareWriteSeg is PrepareWrite for a liaison write-queue shard: the memory part carries the id of the segment the
// batch belongs to (tsTable.mustAddElementsWithSegmentID); 0 = standalone table.
func (v *V5STable) PrepareWriteSeg(rows []V5SRow, seg int64) *V5SIntro {
	in := v.PrepareWrite(rows)
	in.ind.part.mp.segmentID = seg
	return in
}

// V5SMemMerge runs the flusher's real memory-part merge step (tsTable.mergeMemParts: group the memory parts of the
// pinned snapshot by segment, merge every group of >= 2, hand each result to the introducer over the merge channel
// and wait until it is applied) as one scheduled thread against a second scheduled thread playing the introducer
// loop. Channels are not hooked, so a bridge goroutine receives the introduction from the real channel and parks the
// flusher thread in the scheduler (the flusher goroutine itself sits in `<-mi.applied`) until the introducer thread
// has applied it; the bridge then closes `applied`. Exactly one goroutine runs at any time. Needs sched.CheckGoid =
// false (the bridge acts for the flusher thread) and an attached scheduler.
type V5SMemMerge struct {
	Err     error
	v       *V5STable
	ch      chan *mergerIntroduction
	pending *mergerIntroduction
	wApply  *v5sAwaitApplied
	wWork   *v5sAwaitWork
	// Applied = introductions the introducer thread applied
	Applied int
	Merged  bool
	done    bool
	aborted bool
}

type v5sAwaitApplied struct{ m *V5SMemMerge }

func (b *v5sAwaitApplied) CanProceed(sched.Kind) bool { return b.m.pending == nil }

type v5sAwaitWork struct{ m *V5SMemMerge }

func (b *v5sAwaitWork) CanProceed(sched.Kind) bool { return b.m.pending != nil || b.m.done }

// NewMemMerge prepares the pair of thread bodies.
func (v *V5STable) NewMemMerge() *V5SMemMerge {
	m := &V5SMemMerge{v: v, ch: make(chan *mergerIntroduction)}
	m.wApply, m.wWork = &v5sAwaitApplied{m: m}, &v5sAwaitWork{m: m}
	return m
}

// RunFlusher is the flusher thread: pin the current snapshot (as the flusher loop does), mergeMemParts, unpin.
func (m *V5SMemMerge) RunFlusher() {
	defer func() { m.done = true }()
	tst := m.v.tst
	snp := tst.currentSnapshot()
	if snp == nil {
		return
	}
	bridgeDone := make(chan struct{})
	go m.bridge(bridgeDone)
	func() {
		defer func() {
			close(m.ch)
			<-bridgeDone
		}()
		m.Merged, m.Err = tst.mergeMemParts(snp, m.ch)
	}()
	snp.decRef()
}

func (m *V5SMemMerge) bridge(done chan struct{}) {
	defer close(done)
	for mi := range m.ch {
		m.await(mi)
		close(mi.applied)
	}
}

func (m *V5SMemMerge) await(mi *mergerIntroduction) {
	defer func() {
		if r := recover(); r != nil {
			// the execution was aborted while the flusher thread was parked: let the flusher goroutine run out
			m.aborted = true
			m.pending = nil
		}
	}()
	if m.aborted || !sched.Active() {
		m.aborted = true
		return
	}
	m.pending = mi
	sched.Point(sched.KUser, m.wApply, "flusher:await-applied")
}

// RunIntroducer is the introducer thread: it applies every merge introduction the flusher hands over
// (introduceMerged with the next epoch, then the manifest gc, as the introducer loop does) and ends when the flusher
// step is over. after runs right after each publication (harness observation).
func (m *V5SMemMerge) RunIntroducer(after func()) {
	for {
		sched.Point(sched.KUser, m.wWork, "introducer:await-introduction")
		if m.pending == nil {
			return
		}
		// the loop closes `applied` at the end of introduceMerged; here the bridge does it once this thread is done
		// with the publication, so the introduction is applied from a copy without the channel
		cp := *m.pending
		cp.applied = nil
		m.v.tst.introduceMerged(&cp, m.v.epoch)
		m.v.epoch++
		m.v.tst.gc.clean()
		if after != nil {
			after()
		}
		m.Applied++
		m.pending = nil
	}
}
