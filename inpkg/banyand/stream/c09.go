//go:build verif

package stream

// In-package wrapper for /verif check C09: a time-ordered stream query (tsResult of query_by_ts.go, built the way
// stream.executeTimeSeriesQuery builds it) over a loop-free table of c05stream.go (V5STable), asc or desc, with the
// pulled rows returned in result order. Thin glue only.

import (
	"context"

	modelv1 "github.com/apache/skywalking-banyandb/api/proto/banyandb/model/v1"
	"github.com/apache/skywalking-banyandb/banyand/internal/storage"
	"github.com/apache/skywalking-banyandb/pkg/index"
)

// C09SRow is one returned element.
type C09SRow struct {
	Series uint64
	TS     int64
	ID     uint64
}

// C09TSQuery pulls the time-ordered result to exhaustion. limit is MaxElementSize. pulls holds the length of every
// non-nil Pull.
func C09TSQuery(v *V5STable, sids []uint64, minTS, maxTS int64, limit int, desc bool) (rows []C09SRow, pulls []int, err error) {
	q := &V5SQuery{v: v, minTS: minTS, maxTS: maxTS}
	q.seg = &v5sSegment{tst: v.tst, sids: sids}
	qo := v5sOptions(minTS, maxTS, limit)
	sortDir := modelv1.Sort_SORT_ASC
	if desc {
		sortDir = modelv1.Sort_SORT_DESC
	}
	qo.Order = &index.OrderBy{Sort: sortDir, Type: index.OrderByTypeTime}
	res := &tsResult{
		segments: []storage.Segment[*tsTable, option]{q.seg},
		qo:       qo,
		sm:       v.sm,
		pm:       &v5sPM{q: q},
		l:        v.sm.l,
	}
	// as executeTimeSeriesQuery determines it
	if qo.Order == nil {
		res.asc = true
	} else if qo.Order.Sort == modelv1.Sort_SORT_ASC || qo.Order.Sort == modelv1.Sort_SORT_UNSPECIFIED {
		res.asc = true
	}
	defer res.Release()
	for n := 0; n < 1000; n++ {
		r := res.Pull(context.Background())
		if r == nil {
			return rows, pulls, nil
		}
		if r.Error != nil {
			return nil, nil, r.Error
		}
		pulls = append(pulls, len(r.Timestamps))
		for i := range r.Timestamps {
			row := C09SRow{TS: r.Timestamps[i], ID: r.ElementIDs[i]}
			if i < len(r.SIDs) {
				row.Series = uint64(r.SIDs[i])
			}
			rows = append(rows, row)
		}
	}
	return rows, pulls, nil
}
