//go:build verif

package stream

import (
	"sync/atomic"

	"github.com/apache/skywalking-banyandb/api/common"
	databasev1 "github.com/apache/skywalking-banyandb/api/proto/banyandb/database/v1"
	"github.com/apache/skywalking-banyandb/banyand/internal/storage"
	"github.com/apache/skywalking-banyandb/banyand/protector"
	"github.com/apache/skywalking-banyandb/pkg/convert"
	"github.com/apache/skywalking-banyandb/pkg/fs"
	"github.com/apache/skywalking-banyandb/pkg/logger"
	pbv1 "github.com/apache/skywalking-banyandb/pkg/pb/v1"
	"github.com/apache/skywalking-banyandb/pkg/run"
)

// C04Row is one element of the C04 harness.
type C04Row struct {
	Pad    []byte
	Series uint64
	TS     int64
	EID    uint64
	Val    int64
}

// C04Table drives a real stream tsTable step by step (same seam as the measure one: the loop bodies are called
// directly, no background loop runs, no element index).
type C04Table struct {
	tst        *tsTable
	flushInd   *flusherIntroduction
	flushEnd   chan struct{}
	flushSnp   *snapshot
	flushPanic any
	epoch      uint64
	// LoadedEpoch is the epoch of the manifest initTSTable loaded (0 = none).
	LoadedEpoch uint64
}

var c04Schema = []C01Family{{Name: "fam", Tags: []C01Tag{
	{Name: "v", Type: databasev1.TagType_TAG_TYPE_INT}, {Name: "pad", Type: databasev1.TagType_TAG_TYPE_DATA_BINARY},
}}}

// C04Open creates the shard directory if needed and runs the real initTSTable.
func C04Open(dir string, freshEpoch uint64) *C04Table {
	lfs := fs.NewLocalFileSystem()
	lfs.MkdirIfNotExist(dir, storage.DirPerm)
	tst, epoch, err := initTSTable(lfs, dir, common.Position{}, logger.GetLogger("verif"),
		option{protector: protector.Nop{}, mergePolicy: newDefaultMergePolicyForTesting()}, nil, false)
	if err != nil {
		panic("initTSTable: " + err.Error())
	}
	tst.loopCloser = run.NewCloser(1)
	t := &C04Table{tst: tst, epoch: freshEpoch}
	if tst.gc.liveEpoch != 0 && tst.gc.liveEpoch == epoch {
		t.LoadedEpoch = epoch
		t.epoch = epoch + 1
	}
	return t
}

// Write adds one batch as a memory part (mustAddElements without the introducer channel).
func (t *C04Table) Write(rows []C04Row) {
	es := &elements{}
	for _, r := range rows {
		es.seriesIDs = append(es.seriesIDs, common.SeriesID(r.Series))
		es.timestamps = append(es.timestamps, r.TS)
		es.elementIDs = append(es.elementIDs, r.EID)
		es.tagFamilies = append(es.tagFamilies, []tagValues{{tag: "fam", values: []*tagValue{
			{tag: "v", valueType: pbv1.ValueTypeInt64, value: convert.Int64ToBytes(r.Val)},
			{tag: "pad", valueType: pbv1.ValueTypeBinaryData, value: r.Pad},
		}}})
	}
	mp := generateMemPart()
	mp.mustInitFromElements(es)
	p := openMemPart(mp)
	ind := &introduction{part: newPartWrapper(mp, p)}
	ind.part.p.partMetadata.ID = atomic.AddUint64(&t.tst.curPartID, 1)
	t.tst.addPendingDataCount(int64(mp.partMetadata.TotalCount))
	t.tst.introducePart(ind, t.epoch)
	t.epoch++
}

// FlushBegin runs the real flush up to the hand-over to the introducer; false = nothing to flush.
func (t *C04Table) FlushBegin() bool {
	snp := t.tst.currentSnapshot()
	if snp == nil {
		return false
	}
	flushCh := make(chan *flusherIntroduction)
	done := make(chan struct{})
	t.flushPanic = nil
	go func() {
		defer close(done)
		defer func() { t.flushPanic = recover() }() // re-raised on the harness goroutine
		t.tst.flush(snp, flushCh)
	}()
	select {
	case ind := <-flushCh:
		t.flushInd, t.flushEnd, t.flushSnp = ind, done, snp
		return true
	case <-done:
		snp.decRef()
		if t.flushPanic != nil {
			panic(t.flushPanic)
		}
		return false
	}
}

// FlushEnd is the introducer's part of a flush: introduceFlushed, which publishes the manifest.
func (t *C04Table) FlushEnd() {
	t.tst.introduceFlushed(t.flushInd, t.epoch)
	t.epoch++
	<-t.flushEnd
	t.flushSnp.decRef()
	t.flushInd, t.flushEnd, t.flushSnp = nil, nil, nil
	if t.flushPanic != nil {
		panic(t.flushPanic)
	}
}

// GC is the gc.clean() call of the introducer loop.
func (t *C04Table) GC() { t.tst.gc.clean() }

// AllParts lists every part of the current snapshot.
func (t *C04Table) AllParts() (ids []uint64, mem []bool) {
	snp := t.tst.currentSnapshot()
	if snp == nil {
		return nil, nil
	}
	defer snp.decRef()
	for _, pw := range snp.parts {
		ids = append(ids, pw.ID())
		mem = append(mem, pw.mp != nil)
	}
	return
}

// Merge merges the given file parts with the real mergeParts and publishes the result with introduceMerged.
func (t *C04Table) Merge(ids []uint64) (bool, error) {
	snp := t.tst.currentSnapshot()
	if snp == nil {
		return false, nil
	}
	defer snp.decRef()
	want := map[uint64]struct{}{}
	for _, id := range ids {
		want[id] = struct{}{}
	}
	var parts []*partWrapper
	for _, pw := range snp.parts {
		if _, ok := want[pw.ID()]; ok && pw.mp == nil {
			parts = append(parts, pw)
		}
	}
	if len(parts) < 2 {
		return false, nil
	}
	np, err := t.tst.mergeParts(t.tst.fileSystem, make(chan struct{}), parts, atomic.AddUint64(&t.tst.curPartID, 1), t.tst.root)
	if err != nil {
		return false, err
	}
	mi := &mergerIntroduction{newPart: np, merged: want, creator: snapshotCreatorMerger}
	t.tst.introduceMerged(mi, t.epoch)
	t.epoch++
	return true, nil
}

// LiveEpoch and the epochs still waiting for deletion, as the garbage cleaner sees them.
func (t *C04Table) LiveEpoch() (uint64, []uint64) {
	return t.tst.gc.liveEpoch, append([]uint64(nil), t.tst.gc.deletableEpochs...)
}

// Content reads everything back through the block read path (C01Table.Query).
func (t *C04Table) Content(sids []uint64) ([]C04Row, error) {
	rows, err := (&C01Table{tst: t.tst}).Query(c04Schema, C01Query{
		TagProj: map[string][]string{"fam": {"v", "pad"}}, Sids: sids, Min: 0, Max: 1 << 62,
	})
	if err != nil {
		return nil, err
	}
	out := make([]C04Row, 0, len(rows))
	for _, r := range rows {
		o := C04Row{Series: r.S, TS: r.T, EID: r.EID}
		if len(r.Tags) == 2 {
			o.Val = r.Tags[0].GetInt().GetValue()
			o.Pad = r.Tags[1].GetBinaryData()
		}
		out = append(out, o)
	}
	return out, nil
}

// Close releases the table.
func (t *C04Table) Close() { _ = t.tst.Close() }

// C04ValidatePart is the startup validation of one part directory.
func C04ValidatePart(dir string) error { return validatePartMetadata(fs.NewLocalFileSystem(), dir) }

// C04PartName exposes the on-disk naming of parts.
func C04PartName(id uint64) string { return partName(id) }

// C04SnapshotName exposes the on-disk naming of manifests.
func C04SnapshotName(epoch uint64) string { return snapshotName(epoch) }
