//go:build verif

package stream

// In-package seam of /verif check C03 (stream part): a loop-free driver of the real stream tsTable in which flush,
// file merge and the flusher's memory-part merge are split into their two real halves. The first half is the real
// function the flusher / merger loop calls (tsTable.flush, mergePartsThenSendIntroduction, mergeMemParts) running until
// it blocks handing its introduction to the introducer; the second half is the introducer's real step
// (introduceFlushed / introduceMerged + gc.clean). The harness plays the introducer channel. Parts are read back through
// the real block reader (tstIter -> blockCursor.init / loadData, raw stored tag names), queries run through the
// repository's own time-ordered result object (tsResult.Pull: searchSeries -> getBlockScanner -> blockScanner.scan ->
// loadBlockCursor -> blockCursorHeap.merge -> MergeStreamResults) over a stand-in segment that holds the one table.

import (
	"context"
	"fmt"
	"sort"
	"strconv"

	"github.com/apache/skywalking-banyandb/api/common"
	databasev1 "github.com/apache/skywalking-banyandb/api/proto/banyandb/database/v1"
	modelv1 "github.com/apache/skywalking-banyandb/api/proto/banyandb/model/v1"
	"github.com/apache/skywalking-banyandb/banyand/internal/storage"
	"github.com/apache/skywalking-banyandb/banyand/protector"
	"github.com/apache/skywalking-banyandb/pkg/convert"
	"github.com/apache/skywalking-banyandb/pkg/fs"
	"github.com/apache/skywalking-banyandb/pkg/index"
	"github.com/apache/skywalking-banyandb/pkg/logger"
	pbv1 "github.com/apache/skywalking-banyandb/pkg/pb/v1"
	"github.com/apache/skywalking-banyandb/pkg/query/model"
	"github.com/apache/skywalking-banyandb/pkg/run"
	"github.com/apache/skywalking-banyandb/pkg/timestamp"
)

// S3Tag is one tag of an element to write: Type 1 = int64 (value I), 2 = string (value S); Null writes no value.
type S3Tag struct {
	Name string `json:"n"`
	S    string `json:"s,omitempty"`
	I    int64  `json:"i,omitempty"`
	Type int    `json:"t"`
	Null bool   `json:"null,omitempty"`
}

// S3Family is one tag family of an element to write (tags in stored order).
type S3Family struct {
	Name string  `json:"f"`
	Tags []S3Tag `json:"tags"`
}

// S3Elem is one element to write.
type S3Elem struct {
	Fams []S3Family `json:"fams"`
	S    uint64     `json:"s"`
	T    int64      `json:"t"`
	ID   uint64     `json:"id"`
}

// S3Out is one element as seen through a query (Tags: "family.tag" -> "i:5" | "s:x" | "null") or a part dump (Cols:
// "family.storedName" -> "int64:5" | "str:x" | "nil").
type S3Out struct {
	Tags map[string]string `json:"tags,omitempty"`
	Cols map[string]string `json:"cols,omitempty"`
	S    uint64            `json:"s"`
	T    int64             `json:"t"`
	ID   uint64            `json:"id"`
}

// S3Part is the logical content of one part.
type S3Part struct {
	TagType   []string `json:"tagtype,omitempty"` // tag.type of the part: "family.storedName:valueType"
	Rows      []S3Out  `json:"rows"`
	BlockRows []int    `json:"block_rows,omitempty"`  // elements per block, in read order
	BlockSize []uint64 `json:"block_bytes,omitempty"` // uncompressedSizeBytes of every block (its metadata)
	BlockSer  []uint64 `json:"block_series,omitempty"`
	BlockMin  []int64  `json:"block_min,omitempty"`
	BlockMax  []int64  `json:"block_max,omitempty"`
	ID        uint64   `json:"id"`
	Total     uint64   `json:"total"`
	Blocks    uint64   `json:"blocks"`
	MinT      int64    `json:"min"`
	MaxT      int64    `json:"max"`
	Mem       bool     `json:"mem"`
}

// S3Proj is one projected tag family.
type S3Proj struct {
	Family string   `json:"f"`
	Names  []string `json:"n"`
}

// S3Query selects what to query. Schema declares the type of every projected tag (1 int64, 2 string), as the stream
// schema does for a real query.
type S3Query struct {
	Schema map[string]int `json:"schema"`
	Proj   []S3Proj       `json:"proj"`
	Sids   []uint64       `json:"sids"`
	Min    int64          `json:"min"`
	Max    int64          `json:"max"`
	Limit  int            `json:"limit"`
	Desc   bool           `json:"desc,omitempty"`
}

// S3PendingMerge describes a merge whose output exists but is not introduced yet.
type S3PendingMerge struct {
	Inputs []uint64 `json:"inputs"`
	Out    S3Part   `json:"out"`
}

// S3Pending lists the halves in flight.
type S3Pending struct {
	Merge    *S3PendingMerge `json:"merge,omitempty"`
	MemMerge *S3PendingMerge `json:"mem_merge,omitempty"`
	Flush    []uint64        `json:"flush,omitempty"`
}

type s3Task struct {
	pv   any
	done chan struct{}
}

func s3Go(f func()) *s3Task {
	t := &s3Task{done: make(chan struct{})}
	go func() {
		defer func() {
			if r := recover(); r != nil {
				t.pv = r
			}
			close(t.done)
		}()
		f()
	}()
	return t
}

func (t *s3Task) wait() {
	<-t.done
	if t.pv != nil {
		panic(t.pv)
	}
}

type s3PendingMerge struct {
	mi   *mergerIntroduction
	snp  *snapshot
	done *s3Task
	in   []uint64
}

// S3Table drives a real stream tsTable.
type S3Table struct {
	tst     *tsTable
	sm      *stream
	pFlush  *flusherIntroduction
	pFlushS *snapshot
	pFlushD *s3Task
	// universe: family -> plain tag names the harness ever writes (dumps project them under every stored spelling)
	universe map[string][]string
	pMerge   s3PendingMerge
	pMem     s3PendingMerge
	series   []uint64
	epoch    uint64
}

// S3Open opens a table in dir. series = every series id the harness uses, universe = family -> tag names it writes.
func S3Open(dir string, series []uint64, universe map[string][]string) *S3Table {
	// The merge builds its output blocks in pooled blockPointers whose slices keep the capacity of earlier use; whether
	// an append inside fullTagAppend reallocates then depends on what the process merged before. Start every instance
	// from an empty pool (the state of a freshly started server, or after a GC emptied the pools) so that an execution
	// does not depend on the executions before it.
	for {
		v := blockPointerPool.Get()
		blockPointerPool.Discard(v)
		if v == nil {
			break
		}
	}
	lfs := fs.NewLocalFileSystem()
	lfs.MkdirIfNotExist(dir, 0o755)
	tst, epoch, err := initTSTable(lfs, dir, common.Position{}, logger.GetLogger("verif-c03"),
		option{protector: protector.Nop{}, mergePolicy: newDefaultMergePolicyForTesting()}, nil, false)
	if err != nil {
		panic(err)
	}
	tst.loopCloser = run.NewCloser(1)
	tst.introductions = make(chan *introduction)
	sm := &stream{
		schema: &databasev1.Stream{Entity: &databasev1.Entity{TagNames: []string{"verif-entity"}}},
		l:      logger.GetLogger("verif-c03"),
	}
	sm.indexSchema.Store(indexSchema{})
	ss := append([]uint64(nil), series...)
	sort.Slice(ss, func(i, j int) bool { return ss[i] < ss[j] })
	return &S3Table{tst: tst, epoch: epoch + 1, sm: sm, series: ss, universe: universe}
}

func s3ValueType(t int) pbv1.ValueType {
	switch t {
	case 1:
		return pbv1.ValueTypeInt64
	case 2:
		return pbv1.ValueTypeStr
	}
	panic("bad tag type " + strconv.Itoa(t))
}

func s3Elements(els []S3Elem) *elements {
	es := &elements{}
	for i := range els {
		e := &els[i]
		es.seriesIDs = append(es.seriesIDs, common.SeriesID(e.S))
		es.timestamps = append(es.timestamps, e.T)
		es.elementIDs = append(es.elementIDs, e.ID)
		tfs := make([]tagValues, 0, len(e.Fams))
		for _, f := range e.Fams {
			tf := tagValues{tag: f.Name}
			for _, t := range f.Tags {
				tv := &tagValue{tag: t.Name, valueType: s3ValueType(t.Type)}
				if !t.Null {
					if t.Type == 1 {
						tv.value = convert.Int64ToBytes(t.I)
					} else {
						tv.value = []byte(t.S)
					}
				}
				tf.values = append(tf.values, tv)
			}
			tfs = append(tfs, tf)
		}
		es.tagFamilies = append(es.tagFamilies, tfs)
	}
	return es
}

// Write = the real tsTable.mustAddElements (sort, memory part, id assignment) + the real introducePart.
func (v *S3Table) Write(els []S3Elem) {
	es := s3Elements(els)
	t := s3Go(func() {
		ind := <-v.tst.introductions
		v.tst.introducePart(ind, v.epoch)
		v.epoch++
	})
	v.tst.mustAddElements(es)
	t.wait()
}

func (v *S3Table) parts() (mem, file []uint64) {
	snp := v.tst.currentSnapshot()
	if snp == nil {
		return nil, nil
	}
	defer snp.decRef()
	for _, pw := range snp.parts {
		if pw.mp != nil {
			mem = append(mem, pw.ID())
		} else {
			file = append(file, pw.ID())
		}
	}
	return
}

// MemParts lists ids of memory parts in snapshot order.
func (v *S3Table) MemParts() []uint64 { m, _ := v.parts(); return m }

// FileParts lists ids of file parts in snapshot order.
func (v *S3Table) FileParts() []uint64 { _, f := v.parts(); return f }

// FlushA runs the first half of the real flush: tsTable.flush writes every memory part of the current snapshot to
// disk, opens the file parts and blocks sending the introduction; the harness receives it and keeps it pending.
func (v *S3Table) FlushA() bool {
	if v.pFlush != nil || v.pMem.mi != nil {
		return false
	}
	snp := v.tst.currentSnapshot()
	if snp == nil {
		return false
	}
	flushCh := make(chan *flusherIntroduction)
	t := s3Go(func() { v.tst.flush(snp, flushCh) })
	select {
	case ind := <-flushCh:
		v.pFlush, v.pFlushS, v.pFlushD = ind, snp, t
		return true
	case <-t.done:
		snp.decRef()
		t.wait()
		return false
	}
}

// FlushB introduces the pending flush (real introduceFlushed) and lets flush() return.
func (v *S3Table) FlushB() bool {
	if v.pFlush == nil {
		return false
	}
	v.tst.introduceFlushed(v.pFlush, v.epoch)
	v.epoch++
	v.tst.gc.clean()
	t := v.pFlushD
	v.pFlushS.decRef()
	v.pFlush, v.pFlushS, v.pFlushD = nil, nil, nil
	t.wait()
	return true
}

// MergeA runs the first half of a file merge of the given parts of the current snapshot: the real
// mergePartsThenSendIntroduction (reserve space, mergeParts, build introduction, block on the channel).
func (v *S3Table) MergeA(ids []uint64) bool {
	if v.pMerge.mi != nil || len(ids) < 2 {
		return false
	}
	snp := v.tst.currentSnapshot()
	if snp == nil {
		return false
	}
	want := map[uint64]struct{}{}
	for _, id := range ids {
		want[id] = struct{}{}
	}
	var parts []*partWrapper
	for _, pw := range snp.parts {
		if _, ok := want[pw.ID()]; ok && pw.mp == nil {
			parts = append(parts, pw)
		}
	}
	if len(parts) != len(ids) {
		snp.decRef()
		return false
	}
	mergeCh := make(chan *mergerIntroduction)
	var err error
	t := s3Go(func() {
		_, err = v.tst.mergePartsThenSendIntroduction(snapshotCreatorMerger, parts, want, mergeCh, v.tst.loopCloser.CloseNotify(), "file")
	})
	select {
	case mi := <-mergeCh:
		v.pMerge = s3PendingMerge{mi: mi, snp: snp, done: t, in: append([]uint64(nil), ids...)}
		return true
	case <-t.done:
		snp.decRef()
		t.wait()
		panic(fmt.Sprintf("mergeParts failed: %v", err))
	}
}

// MemMergeA runs the flusher's alternative path: the real mergeMemParts (all memory parts of the snapshot merged into
// one file part), first half.
func (v *S3Table) MemMergeA() bool {
	if v.pMem.mi != nil || v.pFlush != nil {
		return false
	}
	snp := v.tst.currentSnapshot()
	if snp == nil {
		return false
	}
	mergeCh := make(chan *mergerIntroduction)
	var err error
	t := s3Go(func() {
		_, err = v.tst.mergeMemParts(snp, mergeCh)
	})
	select {
	case mi := <-mergeCh:
		var in []uint64
		for id := range mi.merged {
			in = append(in, id)
		}
		sort.Slice(in, func(i, j int) bool { return in[i] < in[j] })
		v.pMem = s3PendingMerge{mi: mi, snp: snp, done: t, in: in}
		return true
	case <-t.done:
		snp.decRef()
		t.wait()
		if err != nil {
			panic(fmt.Sprintf("mergeMemParts failed: %v", err))
		}
		return false
	}
}

func (v *S3Table) introduceMerged(pm *s3PendingMerge) bool {
	if pm.mi == nil {
		return false
	}
	v.tst.introduceMerged(pm.mi, v.epoch)
	v.epoch++
	v.tst.gc.clean()
	t := pm.done
	pm.snp.decRef()
	*pm = s3PendingMerge{}
	t.wait()
	return true
}

// MergeB introduces the pending merger-side merge (real introduceMerged).
func (v *S3Table) MergeB() bool { return v.introduceMerged(&v.pMerge) }

// MemMergeB introduces the pending flusher-side merge (real introduceMerged).
func (v *S3Table) MemMergeB() bool { return v.introduceMerged(&v.pMem) }

// Pending describes the halves in flight (merge outputs are dumped through the real block reader).
func (v *S3Table) Pending() S3Pending {
	var p S3Pending
	if v.pFlush != nil {
		for id := range v.pFlush.flushed {
			p.Flush = append(p.Flush, id)
		}
		sort.Slice(p.Flush, func(i, j int) bool { return p.Flush[i] < p.Flush[j] })
	}
	if v.pMerge.mi != nil {
		p.Merge = &S3PendingMerge{Inputs: v.pMerge.in, Out: v.dumpPart(v.pMerge.mi.newPart)}
	}
	if v.pMem.mi != nil {
		p.MemMerge = &S3PendingMerge{Inputs: v.pMem.in, Out: v.dumpPart(v.pMem.mi.newPart)}
	}
	return p
}

// PendingFlushed dumps the file parts a pending flush produced (not yet introduced), ascending by id.
func (v *S3Table) PendingFlushed() []S3Part {
	if v.pFlush == nil {
		return nil
	}
	var out []S3Part
	for _, pw := range v.pFlush.flushed {
		out = append(out, v.dumpPart(pw))
	}
	sort.Slice(out, func(i, j int) bool { return out[i].ID < out[j].ID })
	return out
}

func s3RenderRaw(vt pbv1.ValueType, b []byte) string {
	if b == nil {
		return "nil"
	}
	switch vt {
	case pbv1.ValueTypeInt64:
		if len(b) != 8 {
			return fmt.Sprintf("int64:len%d:%x", len(b), b)
		}
		return "int64:" + strconv.FormatInt(convert.BytesToInt64(b), 10)
	case pbv1.ValueTypeStr:
		if len(b) > 48 {
			return fmt.Sprintf("str:%s..(%d bytes, sum %d)", b[:16], len(b), s3Sum(b))
		}
		return "str:" + string(b)
	default:
		return fmt.Sprintf("t%d:%x", vt, b)
	}
}

func s3Sum(b []byte) uint32 {
	var h uint32 = 2166136261
	for _, c := range b {
		h = (h ^ uint32(c)) * 16777619
	}
	return h
}

// S3RenderStr renders a written string value the way dumps and queries show it (long values are abbreviated).
func S3RenderStr(s string) string {
	r := s3RenderRaw(pbv1.ValueTypeStr, []byte(s))
	return r[len("str:"):]
}

func s3RenderTag(tv *modelv1.TagValue) string {
	switch x := tv.GetValue().(type) {
	case *modelv1.TagValue_Int:
		return "i:" + strconv.FormatInt(x.Int.GetValue(), 10)
	case *modelv1.TagValue_Str:
		return "s:" + S3RenderStr(x.Str.GetValue())
	case *modelv1.TagValue_Null, nil:
		return "null"
	default:
		return fmt.Sprintf("?%T", x)
	}
}

func (v *S3Table) dumpPart(pw *partWrapper) S3Part {
	p := pw.p
	out := S3Part{ID: pw.ID(), Mem: pw.mp != nil, Total: p.partMetadata.TotalCount, Blocks: p.partMetadata.BlocksCount,
		MinT: p.partMetadata.MinTimestamp, MaxT: p.partMetadata.MaxTimestamp}
	// projection: every name of tag.type plus every spelling (plain, #int, #str) of every tag the harness writes, so that
	// a column missing from tag.type is still read back
	names := map[string]map[string]bool{}
	add := func(fam, name string) {
		if names[fam] == nil {
			names[fam] = map[string]bool{}
		}
		names[fam][name] = true
	}
	for fam, cc := range p.tagType {
		for name, vt := range cc {
			out.TagType = append(out.TagType, fmt.Sprintf("%s.%s:%d", fam, name, vt))
			add(fam, name)
		}
	}
	sort.Strings(out.TagType)
	for fam, tags := range v.universe {
		for _, n := range tags {
			add(fam, n)
			add(fam, encodeTypedTag(n, pbv1.ValueTypeInt64))
			add(fam, encodeTypedTag(n, pbv1.ValueTypeStr))
		}
	}
	var qo queryOptions
	qo.minTimestamp, qo.maxTimestamp = -1<<62, 1<<62
	fams := make([]string, 0, len(names))
	for fam := range names {
		fams = append(fams, fam)
	}
	sort.Strings(fams)
	for _, fam := range fams {
		var nn []string
		for n := range names[fam] {
			nn = append(nn, n)
		}
		sort.Strings(nn)
		qo.TagProjection = append(qo.TagProjection, model.TagProjection{Family: fam, Names: nn})
	}
	for _, s := range v.series {
		qo.sortedSids = append(qo.sortedSids, common.SeriesID(s))
	}
	bma := generateBlockMetadataArray()
	defer releaseBlockMetadataArray(bma)
	ti := generateTstIter()
	defer releaseTstIter(ti)
	ti.init(bma, []*part{p}, qo.sortedSids, qo.minTimestamp, qo.maxTimestamp, nil)
	if ti.Error() != nil {
		panic(ti.Error())
	}
	tmp := generateBlock()
	defer releaseBlock(tmp)
	for ti.nextBlock() {
		pi := ti.piHeap[0]
		bc := generateBlockCursor()
		bc.init(pi.p, pi.curBlock, qo)
		tmp.reset()
		if bc.loadData(tmp) {
			out.BlockRows = append(out.BlockRows, len(bc.timestamps))
			out.BlockSize = append(out.BlockSize, bc.bm.uncompressedSizeBytes)
			out.BlockSer = append(out.BlockSer, uint64(bc.bm.seriesID))
			out.BlockMin = append(out.BlockMin, bc.bm.timestamps.min)
			out.BlockMax = append(out.BlockMax, bc.bm.timestamps.max)
			for i := range bc.timestamps {
				o := S3Out{S: uint64(bc.bm.seriesID), T: bc.timestamps[i], ID: bc.elementIDs[i], Cols: map[string]string{}}
				for _, tf := range bc.tagFamilies {
					for _, c := range tf.tags {
						if i < len(c.values) && c.values[i] != nil {
							o.Cols[tf.name+"."+c.name] = s3RenderRaw(c.valueType, c.values[i])
						}
					}
				}
				out.Rows = append(out.Rows, o)
			}
		}
		releaseBlockCursor(bc)
	}
	if ti.Error() != nil {
		panic(ti.Error())
	}
	return out
}

// Dump reads every part of the current snapshot (snapshot order) through the real block read path.
func (v *S3Table) Dump() []S3Part {
	snp := v.tst.currentSnapshot()
	if snp == nil {
		return nil
	}
	defer snp.decRef()
	var out []S3Part
	for _, pw := range snp.parts {
		out = append(out, v.dumpPart(pw))
	}
	return out
}

// s3Segment stands in for the storage segment of the time-ordered query path: one table, a fixed series list.
type s3Segment struct {
	tst  *tsTable
	sids []uint64
}

func (s *s3Segment) DecRef()                               {}
func (s *s3Segment) GetTimeRange() timestamp.TimeRange     { return timestamp.TimeRange{} }
func (s *s3Segment) IndexDB() storage.IndexDB              { return nil }
func (s *s3Segment) Location() string                      { return "" }
func (s *s3Segment) SeriesIndexStats() (int64, int64)      { return 0, 0 }
func (s *s3Segment) Tables() ([]*tsTable, []storage.Cache) { return []*tsTable{s.tst}, nil }
func (s *s3Segment) TablesWithShardIDs() ([]*tsTable, []common.ShardID, []storage.Cache) {
	return []*tsTable{s.tst}, []common.ShardID{0}, nil
}

func (s *s3Segment) CreateTSTableIfNotExist(common.ShardID) (*tsTable, error) { return s.tst, nil }

func (s *s3Segment) Lookup(context.Context, []*pbv1.Series) (pbv1.SeriesList, error) {
	var sl pbv1.SeriesList
	for _, id := range s.sids {
		sl = append(sl, &pbv1.Series{ID: common.SeriesID(id)})
	}
	return sl, nil
}

// Query evaluates a time-ordered query with the repository's tsResult (what stream.Query builds in
// executeTimeSeriesQuery) and pulls it dry. Elements are returned in pull order.
func (v *S3Table) Query(q S3Query) (out []S3Out, err error) {
	var qo queryOptions
	qo.MaxElementSize = q.Limit
	qo.minTimestamp, qo.maxTimestamp = q.Min, q.Max
	qo.schemaTagTypes = map[string]pbv1.ValueType{}
	for n, t := range q.Schema {
		qo.schemaTagTypes[n] = s3ValueType(t)
	}
	nTags := 0
	for _, p := range q.Proj {
		qo.TagProjection = append(qo.TagProjection, model.TagProjection{Family: p.Family, Names: p.Names})
		nTags += len(p.Names)
	}
	if q.Desc {
		qo.Order = &index.OrderBy{Sort: modelv1.Sort_SORT_DESC}
	}
	tr := index.NewIntRangeOpts(q.Min, q.Max, true, true)
	res := &tsResult{
		segments: []storage.Segment[*tsTable, option]{&s3Segment{tst: v.tst, sids: q.Sids}},
		qo:       qo,
		sm:       v.sm,
		pm:       protector.Nop{},
		l:        v.sm.l,
		tr:       &tr,
		asc:      !q.Desc,
	}
	defer res.Release()
	for {
		r := res.Pull(context.Background())
		if r == nil {
			return out, nil
		}
		if r.Error != nil {
			return out, r.Error
		}
		got := 0
		for _, tf := range r.TagFamilies {
			got += len(tf.Tags)
		}
		if len(r.Timestamps) > 0 && got != nTags {
			return out, fmt.Errorf("malformed result: %d tags, want %d", got, nTags)
		}
		if len(r.ElementIDs) != len(r.Timestamps) || len(r.SIDs) != len(r.Timestamps) {
			return out, fmt.Errorf("malformed result: %d timestamps, %d element ids, %d series ids", len(r.Timestamps), len(r.ElementIDs), len(r.SIDs))
		}
		for i := range r.Timestamps {
			o := S3Out{S: uint64(r.SIDs[i]), T: r.Timestamps[i], ID: r.ElementIDs[i], Tags: map[string]string{}}
			for _, tf := range r.TagFamilies {
				for _, t := range tf.Tags {
					if len(t.Values) != len(r.Timestamps) {
						return out, fmt.Errorf("malformed result tag %s.%s: %d values for %d elements", tf.Name, t.Name, len(t.Values), len(r.Timestamps))
					}
					o.Tags[tf.Name+"."+t.Name] = s3RenderTag(t.Values[i])
				}
			}
			out = append(out, o)
		}
	}
}

// S3TypedName is the stored name of a conflicting tag (t: 1 int64, 2 string).
func S3TypedName(name string, t int) string { return encodeTypedTag(name, s3ValueType(t)) }

// S3PlainName decodes a stored tag name.
func S3PlainName(stored string) string { return decodeTypedTag(stored) }

// S3TagTypeString renders one tag.type entry the way S3Part.TagType does.
func S3TagTypeString(fam, stored string, t int) string {
	return fmt.Sprintf("%s.%s:%d", fam, stored, s3ValueType(t))
}

// S3MaxBlockBytes is the uncompressed size at which a block counts as full.
const S3MaxBlockBytes = maxUncompressedBlockSize

// Close releases pending halves (their outputs are simply dropped) and closes the table.
func (v *S3Table) Close() {
	if v.pFlush != nil {
		for _, pw := range v.pFlush.flushed {
			pw.decRef()
		}
		close(v.pFlush.applied)
		<-v.pFlushD.done
		v.pFlushS.decRef()
		v.pFlush = nil
	}
	for _, pm := range []*s3PendingMerge{&v.pMerge, &v.pMem} {
		if pm.mi != nil {
			pm.mi.newPart.decRef()
			close(pm.mi.applied)
			<-pm.done.done
			pm.snp.decRef()
			*pm = s3PendingMerge{}
		}
	}
	_ = v.tst.Close()
}
