//go:build verif

package stream

import "github.com/apache/skywalking-banyandb/pkg/filter"

// VC08GetParts runs the real snapshot.getParts over parts that have only time bounds and returns the selected indexes.
func VC08GetParts(bounds [][2]int64, minTs, maxTs int64) []int {
	s := &snapshot{}
	idx := map[*part]int{}
	for i, b := range bounds {
		p := &part{}
		p.partMetadata.MinTimestamp, p.partMetadata.MaxTimestamp = b[0], b[1]
		idx[p] = i
		s.parts = append(s.parts, &partWrapper{p: p, ref: 1})
	}
	got, _ := s.getParts(nil, minTs, maxTs)
	var out []int
	for _, p := range got {
		out = append(out, idx[p])
	}
	return out
}

// VC08BloomRoundTrip builds a bloom filter the way tag.mustWriteTo does (SetN, ResizeBits(OptimalBitsSize(n)), Add),
// encodes it with encodeBloomFilter and decodes it with decodeBloomFilter.
func VC08BloomRoundTrip(items [][]byte) (before, after Filter) {
	bf := generateBloomFilter()
	bf.SetN(len(items))
	bf.ResizeBits(filter.OptimalBitsSize(len(items)))
	for _, it := range items {
		bf.Add(it)
	}
	enc := encodeBloomFilter(nil, bf)
	return bf, decodeBloomFilter(enc, generateBloomFilter())
}
