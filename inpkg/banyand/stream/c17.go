//go:build verif

package stream

import (
	"path/filepath"

	pbytes "github.com/apache/skywalking-banyandb/pkg/bytes"
	"github.com/apache/skywalking-banyandb/pkg/compress/zstd"
	"github.com/apache/skywalking-banyandb/pkg/fs"
)

// V17Block is one block of a stream part.
type V17Block struct {
	Series uint64
	Min    int64
	Max    int64
	Count  uint64
}

// V17PartBlocks opens the part directory with the real mustOpenFilePart and decodes every block header.
func V17PartBlocks(partDir string) (out []V17Block) {
	id, err := parseEpoch(filepath.Base(partDir))
	if err != nil {
		return nil
	}
	p := mustOpenFilePart(id, filepath.Dir(partDir), fs.NewLocalFileSystem())
	defer p.close()
	var cbuf, buf []byte
	for i := range p.primaryBlockMetadata {
		mr := &p.primaryBlockMetadata[i]
		cbuf = pbytes.ResizeOver(cbuf, int(mr.size))
		fs.MustReadData(p.primary, int64(mr.offset), cbuf)
		buf, err = zstd.Decompress(buf[:0], cbuf)
		if err != nil {
			panic(err)
		}
		bms, err := unmarshalBlockMetadata(nil, buf)
		if err != nil {
			panic(err)
		}
		for j := range bms {
			out = append(out, V17Block{Series: uint64(bms[j].seriesID), Min: bms[j].timestamps.min, Max: bms[j].timestamps.max, Count: bms[j].count})
		}
	}
	return out
}
