//go:build verif

package pub

import (
	"time"

	"google.golang.org/grpc"

	"github.com/apache/skywalking-banyandb/banyand/queue"
	"github.com/apache/skywalking-banyandb/pkg/logger"
)

// V17NewClient builds the real chunked sync client over an existing connection, configured exactly as
// pub.NewChunkedSyncClient configures it (which needs a node registry only to find the connection).
func V17NewClient(conn *grpc.ClientConn, node string, chunkSize uint32) queue.ChunkedSyncClient {
	if chunkSize == 0 {
		chunkSize = defaultChunkSize
	}
	return &chunkedSyncClient{
		conn:      conn,
		node:      node,
		log:       logger.GetLogger("verif-pub"),
		chunkSize: chunkSize,
		config: &ChunkedSyncClientConfig{
			ChunkSize:        chunkSize,
			EnableRetryOnOOO: true,
			MaxOOORetries:    3,
			OOORetryDelay:    100 * time.Millisecond,
		},
	}
}
