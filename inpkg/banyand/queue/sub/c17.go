//go:build verif

package sub

import (
	"time"

	clusterv1 "github.com/apache/skywalking-banyandb/api/proto/banyandb/cluster/v1"
	"github.com/apache/skywalking-banyandb/banyand/queue"
	"github.com/apache/skywalking-banyandb/pkg/bus"
	"github.com/apache/skywalking-banyandb/pkg/logger"
)

// V17Server is the real queue sub server object (never listening) exposing its chunked-sync receiver.
type V17Server struct {
	clusterv1.UnimplementedChunkedSyncServiceServer
	s *server
}

// V17NewServer builds the server through the real constructor, so the shipped defaults of the reordering window
// apply. mode: "default" keeps them; "seq" disables reordering; "w2" = reordering with gap 2 / buffer 2; "b1" = gap 3 / buffer 1.
// The wall-clock buffer timeout (the only time-dependent branch of the receiver) is pushed out of reach.
func V17NewServer(mode string) *V17Server {
	s := NewServerWithPorts(nil, "", 0, 0).(*server)
	s.log = logger.GetLogger("verif-sub")
	s.chunkBufferTimeout = 24 * time.Hour
	switch mode {
	case "seq":
		s.enableChunkReordering = false
	case "w2":
		s.maxChunkGapSize = 2
		s.maxChunkBufferSize = 2
	case "b1":
		s.maxChunkGapSize = 3
		s.maxChunkBufferSize = 1
	}
	return &V17Server{s: s}
}

// Window reports (reordering enabled, max gap, max buffered chunks) as configured.
func (v *V17Server) Window() (bool, uint32, uint32) {
	return v.s.enableChunkReordering, v.s.maxChunkGapSize, v.s.maxChunkBufferSize
}

// Register is server.RegisterChunkedSyncHandler.
func (v *V17Server) Register(topic bus.Topic, h queue.ChunkedSyncHandler) {
	v.s.RegisterChunkedSyncHandler(topic, h)
}

// SyncPart is the real receiver entry point.
func (v *V17Server) SyncPart(stream clusterv1.ChunkedSyncService_SyncPartServer) error {
	return v.s.SyncPart(stream)
}
