//go:build verif

package trace

import (
	"crypto/sha256"
	"fmt"
	"path/filepath"
	"sort"
	"sync/atomic"
	"time"

	"github.com/apache/skywalking-banyandb/api/common"
	"github.com/apache/skywalking-banyandb/banyand/internal/sidx"
	"github.com/apache/skywalking-banyandb/banyand/internal/storage"
	"github.com/apache/skywalking-banyandb/banyand/protector"
	"github.com/apache/skywalking-banyandb/pkg/fs"
	"github.com/apache/skywalking-banyandb/pkg/logger"
	pbv1 "github.com/apache/skywalking-banyandb/pkg/pb/v1"
	"github.com/apache/skywalking-banyandb/pkg/run"
	"github.com/apache/skywalking-banyandb/pkg/timestamp"
)

// C04Span is one span of the C04 harness; every span carries one secondary-index entry (trace id under Key).
type C04Span struct {
	Trace string
	ID    string
	TS    int64
	Key   int64
	Pad   int // payload size
}

// C04SidxName is the single secondary index attached to the table (one index: map order is not owned by the harness).
const C04SidxName = "vidx"

// C04Series is the series id of every index entry.
const C04Series = common.SeriesID(7)

var (
	c04SegStart = time.Date(2026, 9, 10, 0, 0, 0, 0, time.UTC)
	c04SegEnd   = time.Date(2026, 9, 11, 0, 0, 0, 0, time.UTC)
)

// C04Table drives a real trace tsTable (core parts + attached sidx instances, real multi-manager transaction and
// persistSnapshot in introduce*) step by step; no background loop runs. Merge reuses the C05 seam (C5TTable.MergeA/B:
// real mergeParts + sidx.Merge + introduceMerged, no sampler, no fragment guard).
type C04Table struct {
	c5         *C5TTable
	tst        *tsTable
	flushInd   *flusherIntroduction
	flushEnd   chan struct{}
	flushSnp   *snapshot
	flushPanic any
	// LoadedEpoch is the epoch of the manifest initTSTable loaded (0 = none).
	LoadedEpoch uint64
}

// C04Open creates the shard directory if needed and runs the real initTSTable (which loads the attached sidx
// instances with the part ids of the loaded manifest). lfs is the file system handed to the table.
func C04Open(lfs fs.FileSystem, dir string, freshEpoch uint64) *C04Table {
	lfs.MkdirIfNotExist(dir, storage.DirPerm)
	l := logger.GetLogger("verif-c04trace")
	tst, epoch := initTSTable(lfs, dir, common.Position{Database: "c04trace"}, l, option{
		protector:   protector.Nop{},
		mergePolicy: newDefaultMergePolicyForTesting(),
	}, nil)
	tst.segmentTimeRange = timestamp.NewInclusiveTimeRange(c04SegStart, c04SegEnd)
	tst.loopCloser = run.NewCloser(1)
	t := &C04Table{tst: tst, c5: &C5TTable{tst: tst, Dir: dir, epoch: freshEpoch, segStart: c04SegStart.UnixNano(), segEnd: c04SegEnd.UnixNano()}}
	if tst.gc.liveEpoch != 0 && tst.gc.liveEpoch == epoch {
		t.LoadedEpoch = epoch
		t.c5.epoch = epoch + 1
	}
	return t
}

// C04Payload is the payload stored for a span (deterministic, incompressible).
func C04Payload(s C04Span) []byte {
	h := sha256.Sum256([]byte("c04-" + s.Trace + "-" + s.ID))
	b := make([]byte, 0, s.Pad+32)
	for len(b) < s.Pad {
		b = append(b, h[:]...)
		h = sha256.Sum256(h[:])
	}
	return b[:s.Pad]
}

// Write introduces one batch like mustAddTracesWithSegmentID + mustAddMemPart + introducePart: a core memory part plus
// one sidx memory part (one entry per span) under the same part id, in one snapshot transaction.
func (t *C04Table) Write(spans []C04Span) {
	tst := t.tst
	ts := generateTraces()
	reqs := make([]sidx.WriteRequest, 0, len(spans))
	for _, s := range spans {
		ts.traceIDs = append(ts.traceIDs, s.Trace)
		ts.timestamps = append(ts.timestamps, s.TS)
		tv := generateTagValue()
		tv.tag, tv.valueType, tv.value = "t", pbv1.ValueTypeStr, []byte(s.ID)
		ts.tags = append(ts.tags, []*tagValue{tv})
		ts.spans = append(ts.spans, C04Payload(s))
		ts.spanIDs = append(ts.spanIDs, s.ID)
		data := make([]byte, len(s.Trace)+1)
		data[0] = byte(idFormatV1)
		copy(data[1:], s.Trace)
		reqs = append(reqs, sidx.WriteRequest{Data: data, SeriesID: C04Series, Key: s.Key})
	}
	sidxInstance, err := tst.getOrCreateSidx(C04SidxName)
	if err != nil {
		panic(err)
	}
	minTS, maxTS := c04SegStart.UnixNano(), c04SegEnd.UnixNano()
	smp, err := sidxInstance.ConvertToMemPart(reqs, c04SegStart.UnixNano(), &minTS, &maxTS)
	if err != nil {
		panic(err)
	}
	mp := generateMemPart()
	mp.mustInitFromTraces(ts)
	releaseTraces(ts)
	p := openMemPart(mp)
	ind := &introduction{part: newPartWrapper(mp, p), sidxReqsMap: map[string]*sidx.MemPart{C04SidxName: smp}}
	ind.part.p.partMetadata.ID = atomic.AddUint64(&tst.curPartID, 1)
	tst.addPendingDataCount(int64(mp.partMetadata.TotalCount))
	tst.introducePart(ind, t.c5.epoch)
	t.c5.epoch++
}

// FlushBegin runs the real flush (core part files, then sidx.Flush of the same ids) up to the hand-over to the
// introducer; false = nothing to flush.
func (t *C04Table) FlushBegin() bool {
	snp := t.tst.currentSnapshot()
	if snp == nil {
		return false
	}
	flushCh := make(chan *flusherIntroduction)
	done := make(chan struct{})
	t.flushPanic = nil
	go func() {
		defer close(done)
		defer func() { t.flushPanic = recover() }() // re-raised on the harness goroutine
		t.tst.flush(snp, flushCh)
	}()
	select {
	case ind := <-flushCh:
		t.flushInd, t.flushEnd, t.flushSnp = ind, done, snp
		return true
	case <-done:
		snp.decRef()
		if t.flushPanic != nil {
			panic(t.flushPanic)
		}
		return false
	}
}

// FlushEnd is the introducer's part of a flush: introduceFlushed (transaction over core + sidx, then persistSnapshot).
func (t *C04Table) FlushEnd() {
	t.tst.introduceFlushed(t.flushInd, t.c5.epoch)
	t.c5.epoch++
	<-t.flushEnd
	t.flushSnp.decRef()
	t.flushInd, t.flushEnd, t.flushSnp = nil, nil, nil
	if t.flushPanic != nil {
		panic(t.flushPanic)
	}
}

// GC is the gc.clean() call of the introducer loop.
func (t *C04Table) GC() { t.tst.gc.clean() }

// Merge merges the given core file parts and the sidx parts with the same ids and publishes the result.
func (t *C04Table) Merge(ids []uint64) (ok bool, err error) {
	if len(ids) < 2 {
		return false, nil
	}
	m := t.c5.MergeA(ids)
	if m == nil {
		return false, nil
	}
	t.c5.MergeB(m)
	return true, nil
}

// AllParts lists every core part of the current snapshot.
func (t *C04Table) AllParts() (ids []uint64, mem []bool) {
	snp := t.tst.currentSnapshot()
	if snp == nil {
		return nil, nil
	}
	defer snp.decRef()
	for _, pw := range snp.parts {
		ids = append(ids, pw.ID())
		mem = append(mem, pw.mp != nil)
	}
	return
}

// SidxParts lists the parts of the attached index (nil when the index is not loaded).
func (t *C04Table) SidxParts() (ids []uint64, mem []bool, loaded bool) {
	inst, ok := t.tst.getSidx(C04SidxName)
	if !ok {
		return nil, nil, false
	}
	ids, mem = sidx.C04Parts(inst)
	return ids, mem, true
}

// SidxDir is the directory of the attached index.
func (t *C04Table) SidxDir() string { return filepath.Join(t.tst.root, sidxDirName, C04SidxName) }

// LiveEpoch and the epochs still waiting for deletion, as the garbage cleaner sees them.
func (t *C04Table) LiveEpoch() (uint64, []uint64) {
	return t.tst.gc.liveEpoch, append([]uint64(nil), t.tst.gc.deletableEpochs...)
}

// Content reads the given traces through the trace-id query path (C13Table.Query) and every physical index entry
// (C13Table.SidxScan); both as sorted canonical lines.
func (t *C04Table) Content(traceIDs []string) (core []string, index []string, err error) {
	v := &C13Table{tst: t.tst}
	obs, err := v.Query(traceIDs)
	if err != nil {
		return nil, nil, err
	}
	for tid, l := range obs {
		for _, o := range l {
			core = append(core, fmt.Sprintf("%s/%s/%s/%d/%x", tid, o.ID, o.Tag, o.PayloadLen, o.Payload))
		}
	}
	sort.Strings(core)
	rows, err := v.SidxScan()
	if err != nil {
		return nil, nil, err
	}
	seen := map[string]bool{}
	for _, r := range rows {
		k := fmt.Sprintf("%s@%d/%d", r.Trace, r.Key, r.Series)
		if !seen[k] {
			seen[k] = true
			index = append(index, k)
		}
	}
	sort.Strings(index)
	return core, index, nil
}

// Close is tsTable.Close.
func (t *C04Table) Close() { _ = t.tst.Close() }

// C04ValidatePart is the startup validation of one core part directory.
func C04ValidatePart(dir string) error { return validatePartMetadata(fs.NewLocalFileSystem(), dir) }

// C04PartName exposes the on-disk naming of parts.
func C04PartName(id uint64) string { return partName(id) }

// C04SnapshotName exposes the on-disk naming of manifests.
func C04SnapshotName(epoch uint64) string { return snapshotName(epoch) }
