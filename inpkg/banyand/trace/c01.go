//go:build verif

package trace

// In-package seam of /verif check C01 on top of the loop-free trace driver of c13.go (C13Table): writes spans with
// ARBITRARY tags through the real value encoder of the standalone write path (encodeTagValue, the same tag list
// shape as buildTagsAndMap) -> traces -> memPart.mustInitFromTraces -> introducePart, and reads them back through the
// trace-id arm of trace.Query (staticTraceBatchSource -> startBlockScanStage -> queryResult.Pull ->
// blockCursor.loadData / copyAllTo -> mustDecodeTagValue).

import (
	"context"
	"fmt"
	"sort"
	"sync/atomic"

	databasev1 "github.com/apache/skywalking-banyandb/api/proto/banyandb/database/v1"
	modelv1 "github.com/apache/skywalking-banyandb/api/proto/banyandb/model/v1"
	"github.com/apache/skywalking-banyandb/banyand/protector"
	"github.com/apache/skywalking-banyandb/pkg/compress/zstd"
	"github.com/apache/skywalking-banyandb/pkg/fs"
	pbv1 "github.com/apache/skywalking-banyandb/pkg/pb/v1"
	"github.com/apache/skywalking-banyandb/pkg/query/model"
)

// C01Tag is one tag of the harness trace schema (trace id / span id tags are not part of it: the write path strips
// them from the stored tags).
type C01Tag struct {
	Name string
	Type databasev1.TagType
}

// C01Span is one span to write; Tags in schema order (nil = null).
type C01Span struct {
	Trace   string
	SpanID  string
	Tags    []*modelv1.TagValue
	Payload []byte
	TS      int64
}

// C01Obs is one returned span; Tags aligned with the projection.
type C01Obs struct {
	Trace   string
	SpanID  string
	Tags    []*modelv1.TagValue
	Payload []byte
}

// C01Write introduces one batch exactly like mustAddTracesWithSegmentID + mustAddMemPart do, with the introducer's
// part (introducePart) executed inline.
func (v *C13Table) C01Write(schema []C01Tag, spans []C01Span) {
	if len(spans) == 0 {
		return
	}
	tst := v.tst
	ts := generateTraces()
	for i := range spans {
		s := &spans[i]
		ts.traceIDs = append(ts.traceIDs, s.Trace)
		ts.timestamps = append(ts.timestamps, s.TS)
		tags := make([]*tagValue, 0, len(schema))
		for k, t := range schema {
			tv := pbv1.NullTagValue
			if k < len(s.Tags) && s.Tags[k] != nil {
				tv = s.Tags[k]
			}
			tags = append(tags, encodeTagValue(t.Name, t.Type, tv))
		}
		ts.tags = append(ts.tags, tags)
		ts.spans = append(ts.spans, s.Payload)
		ts.spanIDs = append(ts.spanIDs, s.SpanID)
	}
	mp := generateMemPart()
	mp.mustInitFromTraces(ts)
	releaseTraces(ts)
	p := openMemPart(mp)
	ind := generateIntroduction()
	defer releaseIntroduction(ind)
	ind.part = newPartWrapper(mp, p)
	ind.part.p.partMetadata.ID = atomic.AddUint64(&tst.curPartID, 1)
	tst.addPendingDataCount(int64(mp.partMetadata.TotalCount))
	tst.introducePart(ind, v.nextEpoch())
}

// C01Query runs the trace-id query pipeline against this table with the given tag projection.
func (v *C13Table) C01Query(schema []C01Tag, traceIDs []string, proj []string) (out []C01Obs, err error) {
	defer func() {
		if r := recover(); r != nil {
			err = fmt.Errorf("query panicked: %v", r)
		}
	}()
	ids := append([]string(nil), traceIDs...)
	sort.Strings(ids)
	t := &trace{pm: protector.Nop{}, l: v.tst.l}
	ctx, cancel := context.WithCancel(context.Background())
	types := map[string]pbv1.ValueType{}
	for _, tg := range schema {
		if vt := pbv1.TagValueSpecToValueType(tg.Type); vt != pbv1.ValueTypeUnknown {
			types[tg.Name] = vt
		}
	}
	qo := queryOptions{traceIDs: ids, schemaTagTypes: types}
	var tp *model.TagProjection
	if len(proj) > 0 {
		tp = &model.TagProjection{Names: append([]string(nil), proj...)}
	}
	qo.TagProjection = tp
	qo.TraceIDs = ids
	result := queryResult{ctx: ctx, cancel: cancel, tagProjection: tp, keys: map[string]int64{}}
	batchCh := staticTraceBatchSource(ctx, ids, 0, result.keys)
	result.cursorBatchCh = t.startBlockScanStage(ctx, []*tsTable{v.tst}, qo, batchCh)
	traceQueryResultTracker.Acquire(&result)
	defer result.Release()
	for {
		r := result.Pull()
		if r == nil {
			return out, nil
		}
		if r.Error != nil {
			return out, r.Error
		}
		if len(r.Spans) != len(r.SpanIDs) {
			return out, fmt.Errorf("malformed result: %d spans, %d span ids", len(r.Spans), len(r.SpanIDs))
		}
		if len(proj) > 0 && len(r.Tags) != len(proj) {
			return out, fmt.Errorf("malformed result: %d tags, want %d", len(r.Tags), len(proj))
		}
		for i := range r.SpanIDs {
			o := C01Obs{Trace: r.TID, SpanID: r.SpanIDs[i], Payload: r.Spans[i]}
			for k := range proj {
				if r.Tags[k].Name != proj[k] {
					return out, fmt.Errorf("malformed result: tag %d is %q, want %q", k, r.Tags[k].Name, proj[k])
				}
				if len(r.Tags[k].Values) != len(r.SpanIDs) {
					return out, fmt.Errorf("malformed result: tag %q has %d values for %d spans", proj[k], len(r.Tags[k].Values), len(r.SpanIDs))
				}
				o.Tags = append(o.Tags, r.Tags[k].Values[i])
			}
			out = append(out, o)
		}
	}
}

// C01FileParts lists the ids of the file parts of the current snapshot; mem = number of memory parts.
func (v *C13Table) C01FileParts() (ids []uint64, mem int) {
	snp := v.tst.currentSnapshot()
	if snp == nil {
		return nil, 0
	}
	defer snp.decRef()
	for _, pw := range snp.parts {
		if pw.mp != nil {
			mem++
		} else {
			ids = append(ids, pw.ID())
		}
	}
	return
}

// C01BlockCounts returns (parts, blocks, spans) of the current snapshot.
func (v *C13Table) C01BlockCounts() (parts int, blocks, spans uint64) {
	snp := v.tst.currentSnapshot()
	if snp == nil {
		return
	}
	defer snp.decRef()
	for _, pw := range snp.parts {
		parts++
		blocks += pw.p.partMetadata.BlocksCount
		spans += pw.p.partMetadata.TotalCount
	}
	return
}

// C01PrimaryLayout is a read-only view of the primary index of every part of the current snapshot: per part, per
// primary index block, the trace ids of the blocks it lists (in stored order). The harness uses it only to CHOOSE
// inputs (where a primary block rolls over) and to record which alignments were exercised, never as an oracle.
func (v *C13Table) C01PrimaryLayout() (out [][][]string, err error) {
	snp := v.tst.currentSnapshot()
	if snp == nil {
		return nil, nil
	}
	defer snp.decRef()
	for _, pw := range snp.parts {
		p := pw.p
		var part [][]string
		for i := range p.primaryBlockMetadata {
			pbm := &p.primaryBlockMetadata[i]
			buf := make([]byte, int(pbm.size))
			fs.MustReadData(p.primary, int64(pbm.offset), buf)
			raw, derr := zstd.Decompress(nil, buf)
			if derr != nil {
				return nil, derr
			}
			bms, uerr := unmarshalBlockMetadata(nil, raw, p.tagType)
			if uerr != nil {
				return nil, uerr
			}
			ids := make([]string, len(bms))
			for k := range bms {
				ids[k] = bms[k].traceID
			}
			part = append(part, ids)
		}
		out = append(out, part)
	}
	return out, nil
}
