//go:build verif

package trace

// In-package seam of /verif check C05, family "trace": a loop-free trace tsTable (core parts + one attached
// secondary index) whose every snapshot transition is the repository's own function (introducePart, introduceFlushed,
// introduceMerged incl. commitSnapshotTransaction and the generic snapshot.Transaction; gc.clean; Close), and the two
// ordered-query paths cut at the granularity at which query.go / query_vectorized.go call separate functions:
//
//	unfenced (default, non-vectorized):  prepareSIDXStreaming -> [sidx read: QuerySync, rows folded into a trace batch by
//	    the real sidxStreamRunner.consumeShard]  | harness hold |  [core pin + block scan: buildVectorizedScanBatch, the
//	    synchronous twin of the closure inside startBlockScanStage] | harness hold | queryResult.acceptScanBatch + Pull
//	fenced (vectorized):  buildConsistentVectorizedScanBatch (acquireSnapshotPublicationView + phase 1 + core pin, as one
//	    call) | harness hold | materializeVectorizedTraceResults + releaseVectorizedScanBatch
//
// The goroutine/channel plumbing of streamSIDXTraceBatches / startBlockScanStage is not used: channels are not hooked
// by the controlled scheduler. File production of flush and merge (mustFlush, mergeParts, sidx Flush/Merge) is split
// from their publication exactly where the real flusher/merger hand the introduction over to the introducer loop.

import (
	"context"
	"fmt"
	"math"
	"os"
	"sort"
	"sync"
	"sync/atomic"
	"time"

	"github.com/apache/skywalking-banyandb/api/common"
	commonv1 "github.com/apache/skywalking-banyandb/api/proto/banyandb/common/v1"
	databasev1 "github.com/apache/skywalking-banyandb/api/proto/banyandb/database/v1"
	modelv1 "github.com/apache/skywalking-banyandb/api/proto/banyandb/model/v1"
	"github.com/apache/skywalking-banyandb/banyand/internal/sidx"
	snapshotpkg "github.com/apache/skywalking-banyandb/banyand/internal/snapshot"
	"github.com/apache/skywalking-banyandb/banyand/protector"
	"github.com/apache/skywalking-banyandb/pkg/fs"
	"github.com/apache/skywalking-banyandb/pkg/index"
	"github.com/apache/skywalking-banyandb/pkg/logger"
	pbv1 "github.com/apache/skywalking-banyandb/pkg/pb/v1"
	"github.com/apache/skywalking-banyandb/pkg/query/model"
	vtrace "github.com/apache/skywalking-banyandb/pkg/query/vectorized/trace"
	"github.com/apache/skywalking-banyandb/pkg/run"
	"github.com/apache/skywalking-banyandb/pkg/timestamp"
)

// C5TSidxName is the name of the single secondary index attached to the table (one index: the introducer iterates
// a map of indexes, and map order is not owned by the harness).
const C5TSidxName = "vidx"

// C5TSeries is the series id of every index entry.
const C5TSeries = common.SeriesID(7)

// C5TSpan is one span of the harness alphabet. Key is the ordering key of the index entry of its trace (one index
// entry per trace and batch, written for the first span of the trace).
type C5TSpan struct {
	Trace string
	ID    string
	TS    int64
	Key   int64
}

// C5TFS wraps the real file system and counts recursive removals per path.
type C5TFS struct {
	fs.FileSystem
	rm map[string]int
	mu sync.Mutex
}

// MustRMAll counts and forwards. Core part directories are removed by the `go` statement in partWrapper.decRef,
// which the sync rewrite turns into a scheduled thread. The secondary index starts its removal with run.GoOrDie; the
// harness compiles pkg/run/goroutine.go so that this body runs inline on the thread that dropped the last reference
// while a controlled execution is attached (rewrite mode fsgo + vos.VerifStart(false)): the earliest possible
// removal, deterministic, and no further thread (every additional removal thread multiplies the schedule space).
func (f *C5TFS) MustRMAll(path string) {
	f.mu.Lock()
	f.rm[path]++
	f.mu.Unlock()
	f.FileSystem.MustRMAll(path)
}

// Removed returns how often path was removed.
func (f *C5TFS) Removed(path string) int {
	f.mu.Lock()
	defer f.mu.Unlock()
	return f.rm[path]
}

// RemovedAll returns a copy of the removal counters.
func (f *C5TFS) RemovedAll() map[string]int {
	f.mu.Lock()
	defer f.mu.Unlock()
	out := make(map[string]int, len(f.rm))
	for k, v := range f.rm {
		out[k] = v
	}
	return out
}

// C5TPart is an observation handle of one core part wrapper.
type C5TPart struct {
	pw   *partWrapper
	Path string
	ID   uint64
	Mem  bool
}

func c5tCorePart(pw *partWrapper) C5TPart {
	p := C5TPart{pw: pw, Mem: pw.mp != nil}
	if pw.p != nil {
		p.ID = pw.p.partMetadata.ID
		p.Path = pw.p.path
	}
	return p
}

// Ref is the wrapper's reference count (plain atomic load, never a scheduling point).
func (p C5TPart) Ref() int32 { return atomic.LoadInt32(&p.pw.ref) }

// Same reports whether both handles refer to the same wrapper.
func (p C5TPart) Same(o C5TPart) bool { return p.pw == o.pw }

// DirExists reports whether the directory of a file part is on disk (true for memory parts).
func (p C5TPart) DirExists() bool {
	if p.Mem || p.Path == "" {
		return true
	}
	_, err := os.Stat(p.Path)
	return err == nil
}

// C5TTable drives a real trace tsTable through its step functions; no background loop is started.
type C5TTable struct {
	tst      *tsTable
	t        *trace
	FS       *C5TFS
	Dir      string
	epoch    uint64
	segStart int64
	segEnd   int64
}

// C5TOpen opens (or recovers) a table at dir.
func C5TOpen(dir string, segStart, segEnd time.Time) *C5TTable {
	lfs := &C5TFS{FileSystem: fs.NewLocalFileSystem(), rm: map[string]int{}}
	lfs.MkdirIfNotExist(dir, 0o755)
	l := logger.GetLogger("verif-c05trace")
	tst, epoch := initTSTable(lfs, dir, common.Position{Database: "c05trace"}, l, option{
		protector:   protector.Nop{},
		mergePolicy: newDefaultMergePolicyForTesting(),
	}, nil)
	tst.segmentTimeRange = timestamp.NewInclusiveTimeRange(segStart, segEnd)
	tst.loopCloser = run.NewCloser(1)
	if tst.snapshot == nil {
		epoch = 0x1000 // fresh table: initTSTable hands out a wall-clock epoch; the harness owns the clock
	}
	return &C5TTable{
		tst: tst, FS: lfs, Dir: dir, epoch: epoch + 1, segStart: segStart.UnixNano(), segEnd: segEnd.UnixNano(),
		t: &trace{pm: protector.Nop{}, l: l, vectorized: vtrace.DefaultConfig()},
	}
}

// NextEpoch is the epoch the next introduction will publish.
func (v *C5TTable) NextEpoch() uint64 { return v.epoch }

// Sidx returns the attached secondary index (nil before the first write).
func (v *C5TTable) Sidx() sidx.SIDX {
	if v.tst.sidxMap == nil {
		return nil
	}
	return v.tst.sidxMap[C5TSidxName]
}

// C5TIntro is a prepared memory part (core + index) awaiting introduction.
type C5TIntro struct {
	ind  *introduction
	Core C5TPart
	ID   uint64
}

// PrepareWrite builds the core memory part and the index memory part of one batch, exactly like
// mustAddTracesWithSegmentID + mustAddMemPart do before they hand the introduction to the introducer loop.
func (v *C5TTable) PrepareWrite(spans []C5TSpan) *C5TIntro {
	tst := v.tst
	ts := generateTraces()
	var reqs []sidx.WriteRequest
	seen := map[string]bool{}
	for _, s := range spans {
		ts.traceIDs = append(ts.traceIDs, s.Trace)
		ts.timestamps = append(ts.timestamps, s.TS)
		tv := generateTagValue()
		tv.tag, tv.valueType, tv.value = "t", pbv1.ValueTypeStr, []byte(s.ID)
		ts.tags = append(ts.tags, []*tagValue{tv})
		ts.spans = append(ts.spans, []byte("payload-"+s.ID))
		ts.spanIDs = append(ts.spanIDs, s.ID)
		if seen[s.Trace] {
			continue
		}
		seen[s.Trace] = true
		data := make([]byte, len(s.Trace)+1)
		data[0] = byte(idFormatV1)
		copy(data[1:], s.Trace)
		reqs = append(reqs, sidx.WriteRequest{Data: data, SeriesID: C5TSeries, Key: s.Key})
	}
	sidxInstance, err := tst.getOrCreateSidx(C5TSidxName)
	if err != nil {
		panic(err)
	}
	minTS, maxTS := v.segStart, v.segEnd
	smp, err := sidxInstance.ConvertToMemPart(reqs, v.segStart, &minTS, &maxTS)
	if err != nil {
		panic(err)
	}
	mp := generateMemPart()
	mp.mustInitFromTraces(ts)
	releaseTraces(ts)
	p := openMemPart(mp)
	ind := &introduction{part: newPartWrapper(mp, p), sidxReqsMap: map[string]*sidx.MemPart{C5TSidxName: smp}}
	ind.part.p.partMetadata.ID = atomic.AddUint64(&tst.curPartID, 1)
	tst.addPendingDataCount(int64(mp.partMetadata.TotalCount))
	return &C5TIntro{ind: ind, Core: c5tCorePart(ind.part), ID: ind.part.ID()}
}

// IntroducePart is the introducer step for a memory part; returns the epoch it published.
func (v *C5TTable) IntroducePart(in *C5TIntro) uint64 {
	e := v.epoch
	v.tst.introducePart(in.ind, e)
	v.epoch++
	return e
}

// Write = PrepareWrite + IntroducePart.
func (v *C5TTable) Write(spans []C5TSpan) uint64 { return v.IntroducePart(v.PrepareWrite(spans)) }

// AbandonPart prepares the same multi-manager transaction introducePart prepares (core transition first, then one
// transition per index, same prepare functions) and rolls it back instead of committing it. The epoch is not consumed.
// Production code never rolls back; this exercises Transaction.Rollback / Transition.Rollback / Release on the real
// managers.
func (v *C5TTable) AbandonPart(in *C5TIntro) {
	tst := v.tst
	txn := snapshotpkg.NewTransaction()
	defer txn.Release()
	next := in.ind.part
	if next.mp != nil {
		tst.addPendingDataCount(-int64(next.mp.partMetadata.TotalCount))
	}
	partID := next.p.partMetadata.ID
	epoch := v.epoch
	traceTransition := snapshotpkg.NewTransition(tst, func(cur *snapshot) *snapshot {
		if cur == nil {
			cur = new(snapshot)
		}
		nextSnp := cur.copyAllTo(epoch)
		nextSnp.parts = append(nextSnp.parts, next)
		nextSnp.creator = snapshotCreatorMemPart
		return &nextSnp
	})
	defer traceTransition.Release()
	snapshotpkg.AddTransition(txn, traceTransition)
	for name, memPart := range in.ind.sidxReqsMap {
		sidxInstance := tst.mustGetOrCreateSidx(name)
		sidxTransition := snapshotpkg.NewTransition(sidxInstance, sidxInstance.PrepareMemPart(partID, memPart))
		defer sidxTransition.Release()
		snapshotpkg.AddTransition(txn, sidxTransition)
	}
	txn.Rollback()
}

// C5TFlush is the file-producing half of a flush.
type C5TFlush struct {
	ind  *flusherIntroduction
	Core []C5TPart
	Sidx []sidx.C5TPart
}

// FlushA writes every memory part of the current snapshot to disk, opens the file parts and flushes the index parts
// with the same ids (body of tsTable.flush up to the hand-over to the introducer). Nil when there is nothing to flush.
func (v *C5TTable) FlushA() *C5TFlush {
	tst := v.tst
	snp := tst.currentSnapshot()
	if snp == nil {
		return nil
	}
	defer snp.decRef()
	ind := &flusherIntroduction{flushed: map[uint64]*partWrapper{}, sidxFlusherIntroduced: map[string]*sidx.FlusherIntroduction{}}
	out := &C5TFlush{ind: ind}
	partIDMap := make(map[uint64]struct{})
	for _, pw := range snp.parts {
		if pw.mp == nil || pw.mp.partMetadata.TotalCount < 1 {
			continue
		}
		pw.mp.mustFlush(tst.fileSystem, partPath(tst.root, pw.ID()))
		newPW := newPartWrapper(nil, mustOpenFilePart(pw.ID(), tst.root, tst.fileSystem))
		newPW.p.partMetadata.ID = pw.ID()
		ind.flushed[newPW.ID()] = newPW
		partIDMap[newPW.ID()] = struct{}{}
		out.Core = append(out.Core, c5tCorePart(newPW))
	}
	if len(ind.flushed) < 1 {
		return nil
	}
	for name, sidxInstance := range tst.getAllSidx() {
		fi, err := sidxInstance.Flush(partIDMap)
		if err != nil {
			panic(err)
		}
		ind.sidxFlusherIntroduced[name] = fi
		out.Sidx = append(out.Sidx, sidx.C5TFlushedParts(fi)...)
	}
	return out
}

// FlushB is the introducer step for flushed parts.
func (v *C5TTable) FlushB(f *C5TFlush) uint64 {
	e := v.epoch
	v.tst.introduceFlushed(f.ind, e)
	v.epoch++
	return e
}

// C5TMerge is the file-producing half of a merge.
type C5TMerge struct {
	mi   *mergerIntroduction
	IDs  []uint64
	Core C5TPart
	Sidx []sidx.C5TPart
	New  uint64
}

// MergeA merges the given file parts of the current snapshot and the index parts with the same ids into a new part
// (real mergeParts + sidx Merge; body of mergePartsThenIntroduceAttempt up to the hand-over to the introducer).
func (v *C5TTable) MergeA(ids []uint64) *C5TMerge {
	tst := v.tst
	snp := tst.currentSnapshot()
	if snp == nil {
		return nil
	}
	defer snp.decRef()
	merged := map[uint64]struct{}{}
	partIDMap := map[uint64]struct{}{}
	for _, id := range ids {
		merged[id] = struct{}{}
		partIDMap[id] = struct{}{}
	}
	var parts []*partWrapper
	for _, pw := range snp.parts {
		if _, ok := merged[pw.ID()]; ok && pw.mp == nil {
			parts = append(parts, pw)
		}
	}
	if len(parts) != len(ids) {
		panic(fmt.Sprintf("merge: %d of %d parts are file parts of the snapshot", len(parts), len(ids)))
	}
	closeCh := make(chan struct{})
	newPartID := atomic.AddUint64(&tst.curPartID, 1)
	newPart, dropped, err := tst.mergeParts(tst.fileSystem, closeCh, parts, newPartID, tst.root, nil, nil)
	if err != nil {
		panic(err)
	}
	releaseDroppedTraceIDs(dropped)
	out := &C5TMerge{IDs: ids, New: newPartID, Core: c5tCorePart(newPart)}
	intro := map[string]*sidx.MergerIntroduction{}
	for name, sidxInstance := range tst.getAllSidx() {
		mi, mergeErr := sidxInstance.Merge(closeCh, partIDMap, newPartID, nil)
		if mergeErr != nil {
			panic(mergeErr)
		}
		if mi == nil {
			continue
		}
		intro[name] = mi
		out.Sidx = append(out.Sidx, sidx.C5TMergedPart(mi))
	}
	out.mi = &mergerIntroduction{creator: snapshotCreatorMerger, newPart: newPart, merged: merged, sidxMergerIntroduced: intro}
	return out
}

// MergeB is the introducer step for a merged part.
func (v *C5TTable) MergeB(m *C5TMerge) uint64 {
	e := v.epoch
	v.tst.introduceMerged(m.mi, e)
	v.epoch++
	return e
}

// SyncB is the introducer step after the syncer shipped the given file parts to other nodes: introduceSync removes
// them from the index snapshots and from the core snapshot (liaison mode; the shipping itself is not part of the race).
func (v *C5TTable) SyncB(ids []uint64) uint64 {
	e := v.epoch
	si := &syncIntroduction{synced: map[uint64]struct{}{}}
	for _, id := range ids {
		si.synced[id] = struct{}{}
	}
	v.tst.introduceSync(si, e)
	v.epoch++
	return e
}

// GC removes manifests that are no longer live (what the introducer loop does after a flush/merge introduction).
func (v *C5TTable) GC() { v.tst.gc.clean() }

// Close is tsTable.Close.
func (v *C5TTable) Close() { _ = v.tst.Close() }

// PartDir is the directory of a core file part.
func (v *C5TTable) PartDir(id uint64) string { return partPath(v.tst.root, id) }

// C5TView describes one core snapshot.
type C5TView struct {
	v     *C5TTable
	snp   *snapshot
	Parts []C5TPart
	Epoch uint64
}

func (v *C5TTable) view(snp *snapshot) *C5TView {
	if snp == nil {
		return nil
	}
	out := &C5TView{v: v, snp: snp, Epoch: snp.epoch}
	for _, pw := range snp.parts {
		out.Parts = append(out.Parts, c5tCorePart(pw))
	}
	return out
}

// Ref is the snapshot's reference count.
func (w *C5TView) Ref() int32 { return atomic.LoadInt32(&w.snp.ref) }

// ReadAll reads the given traces from every part of the view through the real block scan path (scanPartsInlineSync
// + blockCursor.loadData) and returns the span ids per trace, sorted. The view must be pinned by the caller (or the
// table quiescent); the call contains no hooked operation.
func (w *C5TView) ReadAll(traceIDs []string) map[string][]string {
	ids := append([]string(nil), traceIDs...)
	sort.Strings(ids)
	var parts []*part
	var grouped [][]string
	for _, pw := range w.snp.parts {
		parts = append(parts, pw.p)
		grouped = append(grouped, ids)
	}
	out := map[string][]string{}
	cursors, err := w.v.t.scanPartsInlineSync(context.Background(), parts, grouped, queryOptions{})
	if err != nil {
		panic(fmt.Sprintf("scan of the view: %v", err))
	}
	for _, bc := range cursors {
		tmp := generateBlock()
		if bc.loadData(tmp) {
			out[bc.bm.traceID] = append(out[bc.bm.traceID], bc.spanIDs...)
		}
		releaseBlock(tmp)
		releaseBlockCursor(bc)
	}
	for k := range out {
		sort.Strings(out[k])
	}
	return out
}

// CurrentCore describes the table's current core snapshot WITHOUT pinning it and without taking the table lock. Only
// for harness observations at quiescence.
func (v *C5TTable) CurrentCore() *C5TView { return v.view(v.tst.snapshot) }

// C5TEntry is one index row received by phase 1.
type C5TEntry struct {
	Trace string
	Part  uint64
	Key   int64
}

// C5TObs is one span as returned by the query path.
type C5TObs struct {
	ID      string
	Payload string
	Tag     string
}

// C5TQuery is one ordered trace query over the table.
type C5TQuery struct {
	ctx    context.Context
	v      *C5TTable
	cancel context.CancelFunc
	sb     *scanBatch
	tqo    model.TraceQueryOptions
	batch  traceBatch
	Rows   []C5TEntry // raw index rows of phase 1 before trace-id de-duplication (unfenced path only)
	qo     queryOptions
	done1  bool
	// BeforeRelease (optional) runs inside PullDefault after the last Pull and before queryResult.Release: the window in
	// which a client holds a finished or failed result.
	BeforeRelease func()
}

// NewQuery prepares the query options of an ordered query over the whole key range of the index.
func (v *C5TTable) NewQuery() *C5TQuery {
	ctx, cancel := context.WithCancel(context.Background())
	proj := &model.TagProjection{Names: []string{"t"}}
	tqo := model.TraceQueryOptions{
		Order: &index.OrderBy{
			Index: &databasev1.IndexRule{Metadata: &commonv1.Metadata{Name: C5TSidxName}},
			Sort:  modelv1.Sort_SORT_ASC,
		},
		MinVal: math.MinInt64,
		MaxVal: math.MaxInt64,
	}
	// the index entries of the harness carry no tags: the projection applies to the core read only
	coreTQO := tqo
	coreTQO.TagProjection = proj
	qo := queryOptions{
		TraceQueryOptions: coreTQO,
		schemaTagTypes:    map[string]pbv1.ValueType{"t": pbv1.ValueTypeStr},
		seriesToEntity:    map[common.SeriesID][]*modelv1.TagValue{C5TSeries: nil},
	}
	return &C5TQuery{v: v, ctx: ctx, cancel: cancel, tqo: tqo, qo: qo}
}

// Phase1 is the index half of the unfenced (default) ordered query: prepareSIDXStreaming selects the index instance
// and builds the request; the instance is read (QuerySync; with hold != nil through the same steps with a hold point
// between the index snapshot pin and the read); every row is folded into the trace batch by the real
// sidxStreamRunner.consumeShard (trace-id de-duplication, part attribution, keys).
func (q *C5TQuery) Phase1(hold func(pinned sidx.C5TSnap)) error {
	t := q.v.t
	tables := []*tsTable{q.v.tst}
	instances, req, use := t.prepareSIDXStreaming(q.tqo, q.qo, tables)
	q.done1 = true
	runner := newSIDXStreamRunner(q.ctx, q.ctx, func() {}, req, 0)
	if !use {
		q.batch = runner.batch
		return nil
	}
	for idx, instance := range instances {
		var responses []*sidx.QueryResponse
		var err error
		if hold != nil {
			responses, err = sidx.C5TQuerySyncHeld(q.ctx, instance, req, hold)
		} else {
			responses, err = instance.QuerySync(q.ctx, req)
		}
		if err != nil {
			return err
		}
		for _, resp := range responses {
			if resp == nil {
				continue
			}
			if resp.Error != nil {
				return resp.Error
			}
			shard := &sidxStreamShard{id: idx, response: resp}
			for shard.idx = 0; shard.idx < resp.Len(); shard.idx++ {
				id, derr := decodeTraceID(shard.currentData())
				if derr != nil {
					return derr
				}
				q.Rows = append(q.Rows, C5TEntry{Trace: id, Part: resp.PartIDs[shard.idx], Key: shard.currentKey()})
				if _, cerr := runner.consumeShard(shard); cerr != nil {
					return cerr
				}
			}
		}
	}
	q.batch = runner.batch
	return nil
}

// Phase2 is the core half of the unfenced ordered query: pin the core snapshot of the table and scan the blocks of
// the batch's trace ids (buildVectorizedScanBatch: currentSnapshot of every table, part selection by index part id or
// bloom filter, scanPartsInlineSync — the same three steps the closure inside startBlockScanStage performs).
func (q *C5TQuery) Phase2() error {
	sb, err := q.v.t.buildVectorizedScanBatch(q.ctx, []*tsTable{q.v.tst}, q.qo, q.batch)
	q.sb = sb
	return err
}

// c5tQuotaPM is the memory protector of a query whose block-scan stage is given a fixed quota (fault alphabet of the
// block-scan stage: 0 = "block scan quota exceeded" on the first block).
type c5tQuotaPM struct {
	protector.Nop
	quota int64
}

func (p c5tQuotaPM) AvailableBytes() int64 { return p.quota }

// Phase2Stream is the core half of the unfenced ordered query in the form the block-scan stage of the streaming
// pipeline hands to the result iterator (the closure of startBlockScanStage: currentSnapshot of every table, part
// selection, a scanBatch carrying the pinned snapshots and a cursor channel, scanPartsInline feeding that channel,
// close). The channel is buffered so that the stage runs to its end on the calling thread; queryResult.acceptScanBatch
// later drains it. quota < 0: unlimited; quota = 0: the scan reports "block scan quota exceeded" through the channel.
func (q *C5TQuery) Phase2Stream(quota int64) {
	t := &trace{pm: c5tQuotaPM{quota: quota}, l: q.v.t.l, vectorized: q.v.t.vectorized}
	if q.batch.err != nil {
		q.sb = &scanBatch{traceBatch: q.batch, err: q.batch.err}
		return
	}
	var snapshots []*snapshot
	for _, table := range []*tsTable{q.v.tst} {
		if s := table.currentSnapshot(); s != nil {
			snapshots = append(snapshots, s)
		}
	}
	if len(snapshots) == 0 {
		q.sb = &scanBatch{traceBatch: q.batch}
		return
	}
	parts, groupedIDs, _ := selectVectorizedTraceParts(q.batch, snapshots)
	ch := make(chan scanCursorResult, 1<<12)
	q.sb = &scanBatch{traceBatch: q.batch, cursorCh: ch, snapshots: snapshots}
	t.scanPartsInline(q.ctx, parts, groupedIDs, q.qo, ch)
	close(ch)
}

// Fenced is phase 1 + core pin of the vectorized ordered query as one call of buildConsistentVectorizedScanBatch
// (publication fence, synchronous index read, core snapshot acquisition, fence release).
func (q *C5TQuery) Fenced() error {
	t := q.v.t
	tables := []*tsTable{q.v.tst}
	instances, req, use := t.prepareSIDXStreaming(q.tqo, q.qo, tables)
	if !use {
		q.sb = &scanBatch{}
		return nil
	}
	sb, err := t.buildConsistentVectorizedScanBatch(q.ctx, tables, q.qo, instances, req, use, 0)
	q.sb = sb
	if sb != nil {
		q.batch = sb.traceBatch
	}
	return err
}

// BatchOrder returns the trace ids phase 1 delivered, in index order.
func (q *C5TQuery) BatchOrder() []string { return append([]string(nil), q.batch.traceIDsOrder...) }

// BatchByPart returns the trace ids phase 1 delivered, grouped by the index part they came from.
func (q *C5TQuery) BatchByPart() map[uint64][]string {
	out := map[uint64][]string{}
	for p, ids := range q.batch.traceIDs {
		if len(ids) > 0 {
			out[p] = append([]string(nil), ids...)
		}
	}
	return out
}

// View describes the core snapshot the query pinned (nil: the table had none).
func (q *C5TQuery) View() *C5TView {
	if q.sb == nil || len(q.sb.snapshots) == 0 {
		return nil
	}
	return q.v.view(q.sb.snapshots[0])
}

// PullDefault hands the scanned batch to the default result iterator (queryResult.acceptScanBatch) and pulls every
// trace (queryResult.Pull: loadTraceCursors, copyAllTo); the iterator unpins the core snapshot when the batch is
// exhausted. Returns the traces in the order produced.
func (q *C5TQuery) PullDefault() ([]string, map[string][]C5TObs, error) {
	defer q.cancel()
	out := map[string][]C5TObs{}
	var order []string
	if q.sb == nil {
		return nil, out, nil
	}
	result := queryResult{ctx: q.ctx, cancel: q.cancel, tagProjection: q.qo.TagProjection, keys: map[string]int64{}}
	traceQueryResultTracker.Acquire(&result)
	defer result.Release()
	defer func() {
		if q.BeforeRelease != nil {
			q.BeforeRelease()
		}
	}()
	result.acceptScanBatch(q.sb)
	q.sb = nil
	for {
		r := result.Pull()
		if r == nil {
			break
		}
		if r.Error != nil {
			return order, out, r.Error
		}
		order = append(order, r.TID)
		out[r.TID] = append(out[r.TID], obsOf(r)...)
	}
	return order, out, nil
}

// PullVectorized materializes the scanned batch the vectorized way (materializeVectorizedTraceResults) and releases
// the batch (releaseVectorizedScanBatch unpins the core snapshot).
func (q *C5TQuery) PullVectorized() ([]string, map[string][]C5TObs, error) {
	defer q.cancel()
	out := map[string][]C5TObs{}
	var order []string
	if q.sb == nil {
		return nil, out, nil
	}
	results, err := materializeVectorizedTraceResults(q.ctx, q.sb, q.qo)
	releaseVectorizedScanBatch(q.sb)
	q.sb = nil
	if err != nil {
		return nil, out, err
	}
	for _, r := range results {
		order = append(order, r.TID)
		out[r.TID] = append(out[r.TID], obsOf(r)...)
	}
	return order, out, nil
}

// QueryPipeline runs the same ordered query through the unmodified goroutine pipeline of trace.Query's default arm
// (prepareSIDXStreaming -> streamSIDXTraceBatches -> startBlockScanStage -> queryResult.Pull). Only for a quiescent
// table outside a controlled execution: the harness uses it once per worker to validate that its cut of the unfenced
// path (Phase1 / Phase2 / PullDefault) returns what the pipeline returns.
func (v *C5TTable) QueryPipeline() ([]string, map[string][]C5TObs, error) {
	q := v.NewQuery()
	defer q.cancel()
	t := v.t
	tables := []*tsTable{v.tst}
	instances, req, use := t.prepareSIDXStreaming(q.tqo, q.qo, tables)
	out := map[string][]C5TObs{}
	if !use {
		return nil, out, nil
	}
	result := queryResult{ctx: q.ctx, cancel: q.cancel, tagProjection: q.qo.TagProjection, keys: map[string]int64{}}
	batchCh, streamDone := t.streamSIDXTraceBatches(q.ctx, instances, req, 0)
	result.streamDone = streamDone
	result.cursorBatchCh = t.startBlockScanStage(q.ctx, tables, q.qo, batchCh)
	traceQueryResultTracker.Acquire(&result)
	defer result.Release()
	var order []string
	for {
		r := result.Pull()
		if r == nil {
			break
		}
		if r.Error != nil {
			return order, out, r.Error
		}
		order = append(order, r.TID)
		out[r.TID] = append(out[r.TID], obsOf(r)...)
	}
	return order, out, nil
}

// Abort releases whatever the query still pins (used when a phase failed).
func (q *C5TQuery) Abort() {
	if q.sb != nil {
		releaseVectorizedScanBatch(q.sb)
		q.sb = nil
	}
	q.cancel()
}

func obsOf(r *model.TraceResult) []C5TObs {
	var out []C5TObs
	for i := range r.SpanIDs {
		o := C5TObs{ID: r.SpanIDs[i]}
		if i < len(r.Spans) {
			o.Payload = string(r.Spans[i])
		}
		if len(r.Tags) == 1 && i < len(r.Tags[0].Values) {
			o.Tag = r.Tags[0].Values[i].GetStr().GetValue()
		}
		out = append(out, o)
	}
	return out
}
