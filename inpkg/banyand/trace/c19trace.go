//go:build verif

package trace

// In-package seam of /verif check C19, family "trace". Everything that drives the table (introductions, flush / merge
// file production and publication, gc, close, the ordered query, the block scan) is the loop-free driver of C05's trace
// family (c05trace.go, C5TTable). Added here only: a file system whose hard-link / create / delete / remove calls are
// scheduling points (and that can fail the n-th hard link), an opener that hands that file system to the real
// initTSTable (the secondary index inherits it through getOrCreateSidx / loadSidxMap), and thin wrappers of
// tsTable.TakeFileSnapshot.

import (
	"errors"
	"fmt"
	"time"

	"github.com/apache/skywalking-banyandb/api/common"
	"github.com/apache/skywalking-banyandb/banyand/internal/storage"
	"github.com/apache/skywalking-banyandb/banyand/protector"
	"github.com/apache/skywalking-banyandb/pkg/fs"
	"github.com/apache/skywalking-banyandb/pkg/logger"
	vtrace "github.com/apache/skywalking-banyandb/pkg/query/vectorized/trace"
	"github.com/apache/skywalking-banyandb/pkg/run"
	"github.com/apache/skywalking-banyandb/pkg/timestamp"
	"github.com/apache/skywalking-banyandb/pkg/verif/sched"
)

// C19TFS is C5TFS (removal counters) with scheduling points at the calls a file snapshot races with.
type C19TFS struct {
	*C5TFS
	// Hook makes CreateHardLink / CreateFile / DeleteFile / MustRMAll scheduling points (kind fs).
	Hook bool
	// FailLink > 0: the FailLink-th CreateHardLink issued while Hook is set performs the link and then reports an error
	// (a failure after a part was copied: the destination is non-empty when the snapshot call has to clean up).
	FailLink int
	links    int
}

// MustRMAll is a scheduling point; the removal is counted by the embedded C5TFS.
func (f *C19TFS) MustRMAll(path string) {
	if f.Hook {
		sched.Point(sched.KFS, nil, "MustRMAll")
	}
	f.C5TFS.MustRMAll(path)
}

// CreateHardLink is a scheduling point.
func (f *C19TFS) CreateHardLink(src, dst string, filter func(string) bool) error {
	if f.Hook {
		sched.Point(sched.KFS, nil, "CreateHardLink")
		f.links++
		if f.links == f.FailLink {
			if err := f.C5TFS.CreateHardLink(src, dst, filter); err != nil {
				return err
			}
			return fmt.Errorf("verif: injected failure of hard link #%d", f.links)
		}
	}
	return f.C5TFS.CreateHardLink(src, dst, filter)
}

// Failed reports whether the injected hard-link failure has been delivered.
func (f *C19TFS) Failed() bool { return f.FailLink > 0 && f.links >= f.FailLink }

// CreateFile is a scheduling point.
func (f *C19TFS) CreateFile(name string, permission fs.Mode) (fs.File, error) {
	if f.Hook {
		sched.Point(sched.KFS, nil, "CreateFile")
	}
	return f.C5TFS.CreateFile(name, permission)
}

// DeleteFile is a scheduling point.
func (f *C19TFS) DeleteFile(name string) error {
	if f.Hook {
		sched.Point(sched.KFS, nil, "DeleteFile")
	}
	return f.C5TFS.DeleteFile(name)
}

// C19TOpen is C5TOpen with the hooked file system: opens (or recovers, through the real initTSTable incl. loadSidxMap)
// a table at dir.
func C19TOpen(dir string, segStart, segEnd time.Time) (*C5TTable, *C19TFS) {
	inner := &C5TFS{FileSystem: fs.NewLocalFileSystem(), rm: map[string]int{}}
	lfs := &C19TFS{C5TFS: inner}
	lfs.MkdirIfNotExist(dir, 0o755)
	l := logger.GetLogger("verif-c19trace")
	tst, epoch := initTSTable(lfs, dir, common.Position{Database: "c19trace"}, l, option{
		protector:   protector.Nop{},
		mergePolicy: newDefaultMergePolicyForTesting(),
	}, nil)
	tst.segmentTimeRange = timestamp.NewInclusiveTimeRange(segStart, segEnd)
	tst.loopCloser = run.NewCloser(1)
	if tst.snapshot == nil {
		epoch = 0x1000 // fresh table: the harness owns the clock
	}
	return &C5TTable{
		tst: tst, FS: inner, Dir: dir, epoch: epoch + 1, segStart: segStart.UnixNano(), segEnd: segEnd.UnixNano(),
		t: &trace{pm: protector.Nop{}, l: l, vectorized: vtrace.DefaultConfig()},
	}, lfs
}

// C19TakeFileSnapshot is tsTable.TakeFileSnapshot.
func (v *C5TTable) C19TakeFileSnapshot(dst string) (bool, error) { return v.tst.TakeFileSnapshot(dst) }

// C19TIsNoSnapshot reports whether err is storage.ErrNoCurrentSnapshot.
func C19TIsNoSnapshot(err error) bool { return errors.Is(err, storage.ErrNoCurrentSnapshot) }

// C19TSidxDir is the name of the directory below a table (and below a file snapshot of a table) that holds the
// secondary indexes.
const C19TSidxDir = sidxDirName

// C19TSidxCount is the number of secondary indexes attached to the table.
func (v *C5TTable) C19TSidxCount() int { return len(v.tst.sidxMap) }
