//go:build verif

package trace

import (
	"path/filepath"

	pbytes "github.com/apache/skywalking-banyandb/pkg/bytes"
	"github.com/apache/skywalking-banyandb/pkg/compress/zstd"
	"github.com/apache/skywalking-banyandb/pkg/fs"
)

// V17Block is one block (= the spans of one trace) of a trace part. Min/Max are 0 when the block does not know its
// timestamp bounds; then the part's bounds are reported.
type V17Block struct {
	TraceID string
	Min     int64
	Max     int64
	Count   uint64
}

// V17PartBlocks opens the part directory with the real mustOpenFilePart and decodes every block header.
func V17PartBlocks(partDir string) (out []V17Block) {
	id, err := parseEpoch(filepath.Base(partDir))
	if err != nil {
		return nil
	}
	p := mustOpenFilePart(id, filepath.Dir(partDir), fs.NewLocalFileSystem())
	defer p.close()
	var cbuf, buf []byte
	for i := range p.primaryBlockMetadata {
		mr := &p.primaryBlockMetadata[i]
		cbuf = pbytes.ResizeOver(cbuf, int(mr.size))
		fs.MustReadData(p.primary, int64(mr.offset), cbuf)
		buf, err = zstd.Decompress(buf[:0], cbuf)
		if err != nil {
			panic(err)
		}
		bms, err := unmarshalBlockMetadata(nil, buf, p.tagType)
		if err != nil {
			panic(err)
		}
		for j := range bms {
			b := V17Block{TraceID: bms[j].traceID, Min: bms[j].timestamps.min, Max: bms[j].timestamps.max, Count: bms[j].count}
			if !bms[j].timestamps.known {
				b.Min, b.Max = p.partMetadata.MinTimestamp, p.partMetadata.MaxTimestamp
			}
			out = append(out, b)
		}
	}
	return out
}
