//go:build verif

package trace

// C08 unit level: trace bloom filter codec, the per-part traceID.filter (written and read back through the real file
// functions) and snapshot.getParts (time bounds + trace-id filter); plus the real conversion of a tag value into a
// sidx tag.

import (
	databasev1 "github.com/apache/skywalking-banyandb/api/proto/banyandb/database/v1"
	modelv1 "github.com/apache/skywalking-banyandb/api/proto/banyandb/model/v1"
	"github.com/apache/skywalking-banyandb/banyand/internal/sidx"
	"github.com/apache/skywalking-banyandb/pkg/convert"
	"github.com/apache/skywalking-banyandb/pkg/filter"
	"github.com/apache/skywalking-banyandb/pkg/fs"
)

// VC08BloomRoundTrip builds a bloom filter the way the trace block writer does (SetN, ResizeBits(OptimalBitsSize(n)),
// Add), encodes it with encodeBloomFilter, decodes it with decodeBloomFilter and returns the decoded filter.
func VC08BloomRoundTrip(items [][]byte) *filter.BloomFilter {
	bf := filter.NewBloomFilter(0)
	bf.SetN(len(items))
	bf.ResizeBits(filter.OptimalBitsSize(len(items)))
	for _, it := range items {
		bf.Add(it)
	}
	enc := encodeBloomFilter(nil, bf)
	return decodeBloomFilter(enc, filter.NewBloomFilter(0))
}

// VC08TracePart describes one part: time bounds and the trace ids it holds.
type VC08TracePart struct {
	Min, Max int64
	TraceIDs []string
}

// VC08GetParts builds a snapshot of parts (time bounds + a traceID.filter written to dir and read back with the real
// mustWriteTraceIDFilter / mustReadTraceIDFilter) and runs the real snapshot.getParts.
func VC08GetParts(dir string, parts []VC08TracePart, minTs, maxTs int64, traceIDs []string) []int {
	lfs := fs.NewLocalFileSystem()
	s := &snapshot{}
	idx := map[*part]int{}
	for i, vp := range parts {
		p := &part{}
		p.partMetadata.MinTimestamp, p.partMetadata.MaxTimestamp = vp.Min, vp.Max
		if vp.TraceIDs != nil {
			var w traceIDFilter
			w.filter = generateTraceIDBloomFilter()
			w.filter.SetN(len(vp.TraceIDs))
			w.filter.ResizeBits(filter.OptimalBitsSize(len(vp.TraceIDs)))
			for _, id := range vp.TraceIDs {
				w.filter.Add(convert.StringToBytes(id))
			}
			pd := partPath(dir, uint64(i+1))
			lfs.MkdirIfNotExist(pd, 0o755)
			w.mustWriteTraceIDFilter(lfs, pd)
			w.reset()
			p.traceIDFilter.mustReadTraceIDFilter(lfs, pd)
		}
		idx[p] = i
		s.parts = append(s.parts, &partWrapper{p: p, ref: 1})
	}
	got, _ := s.getParts(nil, minTs, maxTs, traceIDs)
	var out []int
	for _, p := range got {
		out = append(out, idx[p])
	}
	return out
}

// VC08SidxTag converts a tag value into the sidx tag the trace write path stores (encodeTagValue + buildSidxTags).
func VC08SidxTag(name string, t databasev1.TagType, v *modelv1.TagValue) sidx.Tag {
	tv := encodeTagValue(name, t, v)
	return buildSidxTags([]*tagValue{tv})[0]
}
