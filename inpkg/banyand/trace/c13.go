//go:build verif

package trace

// In-package seam of /verif check C13: drives a real trace tsTable step by step without its background loops.
// Every step calls the function the corresponding loop calls (introducePart / flush+introduceFlushed /
// mergeMemParts / mergePartsThenSendIntroductionObserved / runFinalizeRoundNamed + introduceMerged); the only
// harness-owned piece is a stand-in for the introducer loop's select: it receives flusher/merger introductions from
// the channels the real producers send on and applies them with the real introduce* functions, optionally applying a
// pending mem-part introduction first (the "part arrives while a merge runs" interleaving of the real select).

import (
	"context"
	"fmt"
	"math"
	"sort"
	"sync"
	"sync/atomic"
	"time"

	"github.com/apache/skywalking-banyandb/api/common"
	modelv1 "github.com/apache/skywalking-banyandb/api/proto/banyandb/model/v1"
	"github.com/apache/skywalking-banyandb/banyand/internal/sidx"
	"github.com/apache/skywalking-banyandb/banyand/protector"
	"github.com/apache/skywalking-banyandb/pkg/convert"
	"github.com/apache/skywalking-banyandb/pkg/fs"
	"github.com/apache/skywalking-banyandb/pkg/index"
	"github.com/apache/skywalking-banyandb/pkg/logger"
	pbv1 "github.com/apache/skywalking-banyandb/pkg/pb/v1"
	"github.com/apache/skywalking-banyandb/pkg/pipeline/sdk"
	"github.com/apache/skywalking-banyandb/pkg/query/model"
	"github.com/apache/skywalking-banyandb/pkg/run"
	"github.com/apache/skywalking-banyandb/pkg/timestamp"
)

// C13Span is one span of the harness alphabet.
type C13Span struct {
	Trace string // trace id
	ID    string // span id (also payload and tag value)
	TS    int64  // span timestamp (unix nanos)
	Key   int64  // ordering key of its secondary-index entry
	Size  int    // payload size in bytes (0: just "payload-<ID>"); larger payloads are zero-padded
	Rand  bool   // pad with a deterministic incompressible byte stream (seeded by ID) instead of zeros
}

// c13Fill writes the deterministic pseudo-random pad of span id into b (xorshift64 seeded by FNV-1a of the id).
func c13Fill(id string, b []byte) {
	x := uint64(14695981039346656037)
	for i := 0; i < len(id); i++ {
		x = (x ^ uint64(id[i])) * 1099511628211
	}
	x |= 1
	for i := range b {
		x ^= x << 13
		x ^= x >> 7
		x ^= x << 17
		b[i] = byte(x >> 32)
	}
}

// C13Payload is the payload written for a span.
func C13Payload(s C13Span) []byte {
	head := "payload-" + s.ID
	if s.Size <= len(head) {
		return []byte(head)
	}
	b := make([]byte, s.Size)
	copy(b, head)
	if s.Rand {
		c13Fill(s.ID, b[len(head):])
	}
	return b
}

// C13StageBudget returns the per-merge staging budget (hard ceiling of a decision batch) the engine resolves for a
// protector memory limit (resolveStageBudget without the test override).
func C13StageBudget(limit uint64) uint64 {
	return resolveStageBudget(option{protector: c13Protector{limit: limit}})
}

// C13MaxBlockSpanBytes is the engine's per-block span byte limit (maxUncompressedSpanSize): a trace at or above it is
// stored in several blocks of one part.
const C13MaxBlockSpanBytes = maxUncompressedSpanSize

// c13Protector is protector.Nop with a memory limit, which is what resolveStageBudget/resolveTraceBudget derive the
// staging and per-trace budgets from.
type c13Protector struct {
	protector.Nop
	limit uint64
}

func (p c13Protector) GetLimit() uint64 { return p.limit }

// C13TraceBudget returns the per-trace staging budget the engine resolves for a memory limit.
func C13TraceBudget(limit uint64) uint64 { return stageBudgetFromLimit(limit) }

// C13Cfg configures one table instance.
type C13Cfg struct {
	Group      string
	Samplers   []sdk.Sampler // nil: no sampler configured
	Pipeline   bool          // option.nativePipelineEnabled
	MergeEvent bool          // MERGE event enabled for the group
	Grace      time.Duration // merge grace (also enforced max fragment gap)
	SegStart   time.Time
	SegEnd     time.Time
	ForceSlow  bool   // package test seam forceSlowMerge (disables the raw fast path)
	MemLimit   uint64 // protector memory limit (0: protector.Nop, no limit)
}

// C13SidxName is the name of the single secondary index the harness attaches.
const C13SidxName = "vidx"

// C13Series is the series id used for all secondary-index entries.
const C13Series = common.SeriesID(7)

// C13Table is a loop-free tsTable.
type C13Table struct {
	tst     *tsTable
	cfg     C13Cfg
	epoch   atomic.Uint64
	flushCh chan *flusherIntroduction
	mergeCh chan *mergerIntroduction
	stop    chan struct{}
	done    chan struct{}
	// mid is executed (once) by the introducer stand-in after it received a merger introduction and before it
	// applies it: the real loop's select may serve tst.introductions first.
	mid func()
	// mu is held by the stand-in while it handles one introduction, so that Counters() observes completed handling.
	mu         sync.Mutex
	rejected   int // merger introductions rejected by the pre-publication revalidation
	introduced int // merger introductions applied
}

// Counters returns (merger introductions applied, merger introductions rejected by the pre-publication revalidation).
func (v *C13Table) Counters() (int, int) {
	v.mu.Lock()
	defer v.mu.Unlock()
	return v.introduced, v.rejected
}

// C13Open opens (or reopens) a table rooted at dir.
func C13Open(dir string, cfg C13Cfg) *C13Table {
	lfs := fs.NewLocalFileSystem()
	lfs.MkdirIfNotExist(dir, 0o755)
	forceSlowMerge = cfg.ForceSlow
	if cfg.Samplers != nil {
		named := make([]namedSampler, len(cfg.Samplers))
		for i, s := range cfg.Samplers {
			named[i] = namedSampler{name: fmt.Sprintf("s%d", i), sampler: s}
		}
		replaceSamplersForGroup(cfg.Group, named)
	} else {
		removeSamplersForGroup(cfg.Group)
	}
	setMergeEventForGroup(cfg.Group, cfg.MergeEvent)
	var pm protector.Memory = protector.Nop{}
	if cfg.MemLimit > 0 {
		pm = c13Protector{limit: cfg.MemLimit}
	}
	tst, epoch := initTSTable(lfs, dir, common.Position{Database: cfg.Group}, logger.GetLogger("verif-c13"), option{
		protector:                 pm,
		mergePolicy:               newDefaultMergePolicyForTesting(),
		decideTimeout:             time.Hour, // never fires: no verdict depends on wall-clock time
		decideTimeoutCircuitBreak: 3,
		mergeGraceDefault:         cfg.Grace,
		nativePipelineEnabled:     cfg.Pipeline,
	}, nil)
	tst.segmentTimeRange = timestamp.NewInclusiveTimeRange(cfg.SegStart, cfg.SegEnd)
	tst.loopCloser = run.NewCloser(1)
	v := &C13Table{tst: tst, cfg: cfg, flushCh: make(chan *flusherIntroduction), mergeCh: make(chan *mergerIntroduction),
		stop: make(chan struct{}), done: make(chan struct{})}
	tst.mergeCh = v.mergeCh
	v.epoch.Store(epoch + 1)
	go v.introducer()
	return v
}

func (v *C13Table) nextEpoch() uint64 { return v.epoch.Add(1) - 1 }

// barrier waits until the stand-in has finished handling the introduction it is working on (the sender is released
// when `applied` is closed, which happens before the stand-in's gc.clean()).
func (v *C13Table) barrier() {
	v.mu.Lock()
	v.mu.Unlock() //nolint:staticcheck // empty critical section is the point
}

// introducer stands in for introducerLoop: same introduce* calls, same gc.clean() placement.
func (v *C13Table) introducer() {
	defer close(v.done)
	for {
		select {
		case <-v.stop:
			return
		case next := <-v.flushCh:
			v.mu.Lock()
			v.tst.introduceFlushed(next, v.nextEpoch())
			v.tst.gc.clean()
			v.mu.Unlock()
		case next := <-v.mergeCh:
			v.mu.Lock()
			if f := v.mid; f != nil {
				v.mid = nil
				f()
			}
			// next may be recycled by the sender as soon as applied is closed: do not read it afterwards; whether it
			// was published is recovered from the snapshot (a rejected introduction leaves the epoch unchanged).
			ep := v.nextEpoch()
			v.tst.introduceMerged(next, ep)
			if v.tst.currentEpoch() == ep {
				v.introduced++
			} else {
				v.rejected++
			}
			v.tst.gc.clean()
			v.mu.Unlock()
		}
	}
}

// SetMid arms the "introduction served before the merger introduction" hook.
func (v *C13Table) SetMid(f func()) { v.mid = f }

// MidPending reports whether an armed hook has not fired.
func (v *C13Table) MidPending() bool { return v.mid != nil }

// SetNow sets the logical merge clock (tsTable.setMergeNow).
func (v *C13Table) SetNow(t time.Time) { v.tst.setMergeNow(t) }

// Write introduces one batch exactly like mustAddTracesWithSegmentID+mustAddMemPart do, with the introducer's part
// (introducePart) executed inline: trace mem part plus one sidx mem part with one entry per span.
func (v *C13Table) Write(spans []C13Span) { v.WriteSeg(spans, 0) }

// WriteSeg is Write for a batch that belongs to segment segmentID (mustAddTracesWithSegmentID as called by the liaison
// write queue, whose shard table holds memory parts of several segments; 0 = standalone/data node).
func (v *C13Table) WriteSeg(spans []C13Span, segmentID int64) {
	if len(spans) == 0 {
		return
	}
	tst := v.tst
	ts := generateTraces()
	reqs := make([]sidx.WriteRequest, 0, len(spans))
	for _, s := range spans {
		ts.traceIDs = append(ts.traceIDs, s.Trace)
		ts.timestamps = append(ts.timestamps, s.TS)
		tv := generateTagValue()
		tv.tag, tv.valueType, tv.value = "t", pbv1.ValueTypeStr, []byte(s.ID)
		ts.tags = append(ts.tags, []*tagValue{tv})
		ts.spans = append(ts.spans, C13Payload(s))
		ts.spanIDs = append(ts.spanIDs, s.ID)
		data := make([]byte, len(s.Trace)+1)
		data[0] = byte(idFormatV1)
		copy(data[1:], s.Trace)
		reqs = append(reqs, sidx.WriteRequest{Data: data, SeriesID: C13Series, Key: s.Key})
	}
	sidxInstance, err := tst.getOrCreateSidx(C13SidxName)
	if err != nil {
		panic(err)
	}
	minTS, maxTS := v.cfg.SegStart.UnixNano(), v.cfg.SegEnd.UnixNano()
	smp, err := sidxInstance.ConvertToMemPart(reqs, v.cfg.SegStart.UnixNano(), &minTS, &maxTS)
	if err != nil {
		panic(err)
	}
	mp := generateMemPart()
	mp.mustInitFromTraces(ts)
	mp.segmentID = segmentID
	releaseTraces(ts)
	p := openMemPart(mp)
	ind := generateIntroduction()
	defer releaseIntroduction(ind)
	ind.part = newPartWrapper(mp, p)
	ind.part.p.partMetadata.ID = atomic.AddUint64(&tst.curPartID, 1)
	ind.sidxReqsMap = map[string]*sidx.MemPart{C13SidxName: smp}
	tst.addPendingDataCount(int64(mp.partMetadata.TotalCount))
	tst.introducePart(ind, v.nextEpoch())
}

// Flush runs the flusher's flush step on the current snapshot; the stand-in introduces the result.
func (v *C13Table) Flush() bool {
	snp := v.tst.currentSnapshot()
	if snp == nil {
		return false
	}
	defer snp.decRef()
	before := v.tst.currentEpoch()
	v.tst.flush(snp, v.flushCh)
	v.barrier()
	return v.tst.currentEpoch() != before
}

// MergeMem runs the flusher's mem-part merge (mergeMemParts) on the current snapshot.
func (v *C13Table) MergeMem() (merged bool, err error) {
	snp := v.tst.currentSnapshot()
	if snp == nil {
		return false, nil
	}
	defer snp.decRef()
	defer v.barrier()
	defer func() {
		if r := recover(); r != nil {
			err = fmt.Errorf("merge panicked: %v", r)
		}
	}()
	return v.tst.mergeMemParts(snp, v.mergeCh)
}

// Merge merges the file parts with the given ids the way a merge-lane worker does for a dispatched request
// (dispatchAllMergesUpTo's pin + mergeLaneWorker's call + releaseDispatchRequest).
func (v *C13Table) Merge(ids []uint64, lane string) (err error) {
	tst := v.tst
	snp := tst.currentSnapshot()
	if snp == nil {
		return fmt.Errorf("no snapshot")
	}
	want := map[uint64]struct{}{}
	for _, id := range ids {
		want[id] = struct{}{}
	}
	var dst []*partWrapper
	toBeMerged := map[uint64]struct{}{}
	for _, pw := range snp.parts {
		if _, ok := want[pw.ID()]; ok && pw.mp == nil {
			dst = append(dst, pw)
			toBeMerged[pw.ID()] = struct{}{}
		}
	}
	if len(dst) != len(ids) {
		snp.decRef()
		return fmt.Errorf("merge: %d of %d parts are file parts of the snapshot", len(dst), len(ids))
	}
	for _, pw := range dst {
		pw.incRef()
	}
	snp.decRef()
	tst.inFlightMu.Lock()
	if tst.inFlight == nil {
		tst.inFlight = make(map[uint64]struct{})
	}
	for _, pw := range dst {
		tst.inFlight[pw.ID()] = struct{}{}
	}
	tst.inFlightMu.Unlock()
	req := &mergeDispatchRequest{parts: dst, toBeMerged: toBeMerged, typ: mergeTypeFile, lane: lane}
	defer v.barrier()
	defer tst.releaseDispatchRequest(req)
	defer func() {
		if r := recover(); r != nil {
			err = fmt.Errorf("merge panicked: %v", r)
		}
	}()
	_, err = tst.mergePartsThenSendIntroductionObserved(snapshotCreatorMerger, req.parts, req.toBeMerged, v.mergeCh,
		tst.loopCloser.CloseNotify(), req.typ, req.lane, nil, nil)
	return err
}

// Finalize runs one finalize round with the configured samplers.
func (v *C13Table) Finalize(graceNs int64) (committed bool, err error) {
	defer v.barrier()
	defer func() {
		if r := recover(); r != nil {
			err = fmt.Errorf("finalize panicked: %v", r)
		}
	}()
	return v.tst.runFinalizeRoundNamed(lookupNamedSamplers(v.cfg.Group), graceNs)
}

// C13Part is the read-back description of one part of the current snapshot.
type C13Part struct {
	Traces      map[string][]string // trace id -> span ids in stored order (read through the block scan path)
	Bloom       map[string]bool     // trace id -> traceIDFilter.MightContain
	ID          uint64
	MinTS       int64
	MaxTS       int64
	Seg         int64 // memory parts: the segment id the part was acknowledged for
	FinalizeGen uint64
	TotalCount  uint64
	Blocks      int
	Mem         bool
}

// Parts reads back every part of the current snapshot (snapshot order).
func (v *C13Table) Parts(traceIDs []string) []C13Part {
	snp := v.tst.currentSnapshot()
	if snp == nil {
		return nil
	}
	defer snp.decRef()
	ids := append([]string(nil), traceIDs...)
	sort.Strings(ids)
	t := &trace{pm: protector.Nop{}, l: v.tst.l}
	var out []C13Part
	for _, pw := range snp.parts {
		pm := pw.p.partMetadata
		cp := C13Part{ID: pw.ID(), Mem: pw.mp != nil, MinTS: pm.MinTimestamp, MaxTS: pm.MaxTimestamp, FinalizeGen: pm.FinalizeGen,
			TotalCount: pm.TotalCount, Traces: map[string][]string{}, Bloom: map[string]bool{}}
		if pw.mp != nil {
			cp.Seg = pw.mp.segmentID
		}
		for _, id := range ids {
			cp.Bloom[id] = pw.p.traceIDFilter.filter != nil && pw.p.traceIDFilter.filter.MightContain(convert.StringToBytes(id))
		}
		cursors, err := t.scanPartsInlineSync(context.Background(), []*part{pw.p}, [][]string{ids}, queryOptions{})
		if err != nil {
			panic(fmt.Sprintf("part %d scan: %v", pw.ID(), err))
		}
		for _, bc := range cursors {
			tmp := generateBlock()
			cp.Blocks++
			if bc.loadData(tmp) {
				cp.Traces[bc.bm.traceID] = append(cp.Traces[bc.bm.traceID], bc.spanIDs...)
			}
			releaseBlock(tmp)
			releaseBlockCursor(bc)
		}
		out = append(out, cp)
	}
	return out
}

// FinalizeGen returns the table's cached finalize generation.
func (v *C13Table) FinalizeGen() uint64 { return v.tst.finalizeGenCached.Load() }

// InFlight returns the number of pinned (in-flight) parts.
func (v *C13Table) InFlight() int {
	v.tst.inFlightMu.RLock()
	defer v.tst.inFlightMu.RUnlock()
	return len(v.tst.inFlight)
}

// C13Obs is one span as returned by the query path.
type C13Obs struct {
	ID         string
	Payload    string // first len("payload-"+ID) bytes
	Tag        string
	PayloadLen int
	ZeroTail   bool // every byte after the head is zero
	RandTail   bool // the bytes after the head are the deterministic pad of C13Span.Rand
}

// Query runs the trace-id query pipeline of trace.Query (staticTraceBatchSource -> startBlockScanStage ->
// queryResult.Pull, i.e. its non-vectorized `len(qo.traceIDs) > 0` arm) against this table.
func (v *C13Table) Query(traceIDs []string) (map[string][]C13Obs, error) {
	ids := append([]string(nil), traceIDs...)
	sort.Strings(ids)
	t := &trace{pm: protector.Nop{}, l: v.tst.l}
	ctx, cancel := context.WithCancel(context.Background())
	proj := &model.TagProjection{Names: []string{"t"}}
	qo := queryOptions{traceIDs: ids, schemaTagTypes: map[string]pbv1.ValueType{"t": pbv1.ValueTypeStr}}
	qo.TagProjection = proj
	qo.TraceIDs = ids
	result := queryResult{ctx: ctx, cancel: cancel, tagProjection: proj, keys: map[string]int64{}}
	batchCh := staticTraceBatchSource(ctx, ids, 0, result.keys)
	result.cursorBatchCh = t.startBlockScanStage(ctx, []*tsTable{v.tst}, qo, batchCh)
	traceQueryResultTracker.Acquire(&result)
	defer result.Release()
	out := map[string][]C13Obs{}
	for {
		r := result.Pull()
		if r == nil {
			break
		}
		if r.Error != nil {
			return nil, r.Error
		}
		for i := range r.SpanIDs {
			o := C13Obs{ID: r.SpanIDs[i]}
			if i < len(r.Spans) {
				b := r.Spans[i]
				h := len("payload-") + len(o.ID)
				if h > len(b) {
					h = len(b)
				}
				o.Payload, o.PayloadLen, o.ZeroTail = string(b[:h]), len(b), true
				for _, c := range b[h:] {
					if c != 0 {
						o.ZeroTail = false
						break
					}
				}
				if !o.ZeroTail {
					want := make([]byte, len(b)-h)
					c13Fill(o.ID, want)
					o.RandTail = string(want) == string(b[h:])
				}
			}
			if len(r.Tags) == 1 && i < len(r.Tags[0].Values) {
				o.Tag = r.Tags[0].Values[i].GetStr().GetValue()
			}
			out[r.TID] = append(out[r.TID], o)
		}
	}
	return out, nil
}

// C13SidxRow is one secondary-index entry.
type C13SidxRow struct {
	Trace  string
	PartID uint64
	Key    int64
	Series uint64
}

// SidxScan returns every entry of every attached secondary index (physical rows of all parts, no deduplication).
// sidx.ScanQuery is not used: its responses alias pooled block buffers (Data is appended without a copy and the block
// cursor is released), so the trace ids it returns can be overwritten by later blocks.
func (v *C13Table) SidxScan() ([]C13SidxRow, error) {
	var out []C13SidxRow
	all := v.tst.getAllSidx()
	names := make([]string, 0, len(all))
	for n := range all {
		names = append(names, n)
	}
	sort.Strings(names)
	for _, n := range names {
		err := sidx.C13ScanAll(context.Background(), all[n], func(r sidx.RawRow) error {
			id, derr := decodeTraceID(r.Data)
			if derr != nil {
				id = fmt.Sprintf("undecodable:%x", r.Data)
			}
			out = append(out, C13SidxRow{Trace: id, PartID: r.PartID, Key: r.Key, Series: uint64(r.SeriesID)})
			return nil
		})
		if err != nil {
			return nil, err
		}
	}
	return out, nil
}

// QueryOrdered runs the ordered (secondary-index driven) arm of trace.Query against this table:
// streamSIDXTraceBatches (real sidx StreamingQuery, trace-id de-duplication) -> startBlockScanStage ->
// queryResult.Pull.  It returns the trace ids in the order produced and the span ids per trace.
func (v *C13Table) QueryOrdered() ([]string, map[string][]string, error) {
	inst, ok := v.tst.getSidx(C13SidxName)
	if !ok {
		return nil, map[string][]string{}, nil
	}
	t := &trace{pm: protector.Nop{}, l: v.tst.l}
	ctx, cancel := context.WithCancel(context.Background())
	minKey, maxKey := int64(math.MinInt64), int64(math.MaxInt64)
	req := sidx.QueryRequest{SeriesIDs: []common.SeriesID{C13Series}, MinKey: &minKey, MaxKey: &maxKey,
		Order: &index.OrderBy{Sort: modelv1.Sort_SORT_ASC}}
	qo := queryOptions{}
	result := queryResult{ctx: ctx, cancel: cancel, keys: map[string]int64{}}
	batchCh, streamDone := t.streamSIDXTraceBatches(ctx, []sidx.SIDX{inst}, req, 0)
	result.streamDone = streamDone
	result.cursorBatchCh = t.startBlockScanStage(ctx, []*tsTable{v.tst}, qo, batchCh)
	traceQueryResultTracker.Acquire(&result)
	defer result.Release()
	var order []string
	spans := map[string][]string{}
	for {
		r := result.Pull()
		if r == nil {
			break
		}
		if r.Error != nil {
			return nil, nil, r.Error
		}
		order = append(order, r.TID)
		spans[r.TID] = append(spans[r.TID], r.SpanIDs...)
	}
	return order, spans, nil
}

// Close stops the stand-in and closes the table.
func (v *C13Table) Close() {
	close(v.stop)
	<-v.done
	_ = v.tst.Close()
	removeSamplersForGroup(v.cfg.Group)
	setMergeEventForGroup(v.cfg.Group, false)
	forceSlowMerge = false
}
