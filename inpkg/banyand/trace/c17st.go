//go:build verif

package trace

// In-package seam of /verif check C17, part-transfer phases, TRACE kind (core part + the sidx part of every secondary
// index, shipped as separate PartsInfo entries of one sync session). The cluster phase's placement audit lives in
// c17.go. Same shape as inpkg/banyand/measure/c17.go.

import (
	"context"
	"fmt"
	"io"
	"path/filepath"
	"sort"
	"strings"
	"sync/atomic"
	"time"

	"github.com/apache/skywalking-banyandb/api/common"
	"github.com/apache/skywalking-banyandb/banyand/internal/sidx"
	"github.com/apache/skywalking-banyandb/banyand/internal/storage"
	"github.com/apache/skywalking-banyandb/banyand/protector"
	"github.com/apache/skywalking-banyandb/banyand/queue"
	"github.com/apache/skywalking-banyandb/pkg/fs"
	"github.com/apache/skywalking-banyandb/pkg/logger"
	pbv1 "github.com/apache/skywalking-banyandb/pkg/pb/v1"
	"github.com/apache/skywalking-banyandb/pkg/run"
	resourceSchema "github.com/apache/skywalking-banyandb/pkg/schema"
	"github.com/apache/skywalking-banyandb/pkg/timestamp"
	"github.com/apache/skywalking-banyandb/pkg/watcher"
)

// V17stSpan is one span; it gets one entry in every secondary index of the table (key derived from Key).
type V17stSpan struct {
	Trace string
	ID    string
	TS    int64
	Key   int64
	Pad   int
}

// V17stSeries is the series id of every index entry.
const V17stSeries = common.SeriesID(7)

// V17stCore is the part type of the core part in the sync protocol.
const V17stCore = PartTypeCore

// V17stSidxDir is the directory (below the table root) that holds the secondary indexes.
const V17stSidxDir = sidxDirName

// V17stTable is a real trace tsTable (core parts + attached sidx instances) with the real introducer loop running
// (write-queue variant with the sync channel for a sender, data-node variant for a receiver).
type V17stTable struct {
	tst       *tsTable
	flushCh   chan *flusherIntroduction
	mergeCh   chan *mergerIntroduction
	syncCh    chan *syncIntroduction
	Dir       string
	Idx       []string // names of the secondary indexes every written span is entered into
	segStart  time.Time
	segEnd    time.Time
	dead      chan struct{} // closed when the introducer loop goroutine died of a panic
	loopPanic string
	closed    bool
}

// V17stOpen opens (or recovers) a table at dir. day = any instant of the (1-day) segment the table belongs to.
func V17stOpen(dir string, idx []string, day int64, sender bool) *V17stTable {
	lfs := fs.NewLocalFileSystem()
	lfs.MkdirIfNotExist(dir, 0o755)
	tst, epoch := initTSTable(lfs, dir, common.Position{Database: "g17"}, logger.GetLogger("verif"), option{
		protector:                 protector.Nop{},
		mergePolicy:               newDefaultMergePolicyForTesting(),
		decideTimeout:             time.Hour,
		decideTimeoutCircuitBreak: 3,
	}, nil)
	if tst.snapshot == nil {
		epoch = 0x1000 // fresh table: the harness owns the clock
	}
	start := time.Unix(0, day).UTC().Truncate(24 * time.Hour)
	v := &V17stTable{
		tst: tst, Dir: dir, Idx: append([]string(nil), idx...), segStart: start, segEnd: start.Add(24 * time.Hour),
		flushCh: make(chan *flusherIntroduction), mergeCh: make(chan *mergerIntroduction), syncCh: make(chan *syncIntroduction),
	}
	tst.segmentTimeRange = timestamp.NewInclusiveTimeRange(v.segStart, v.segEnd)
	tst.loopCloser = run.NewCloser(1 + 1)
	tst.introductions = make(chan *introduction)
	tst.mergeCh = v.mergeCh
	tst.group = "g17"
	v.dead = make(chan struct{})
	go func() {
		// the shipped table starts its loops through run.Go: a panic kills the loop goroutine (logged), not the process
		defer func() {
			if p := recover(); p != nil {
				v.loopPanic = fmt.Sprint(p)
				close(v.dead)
			}
		}()
		if sender {
			tst.introducerLoopWithSync(v.flushCh, v.mergeCh, v.syncCh, make(watcher.Channel, 1), epoch+1)
		} else {
			tst.introducerLoop(v.flushCh, v.mergeCh, make(watcher.Channel, 1), epoch+1)
		}
	}()
	return v
}

// LoopDead is closed when the introducer loop goroutine has died of a panic; LoopPanic is the panic value then. From
// that moment nothing is introduced into this table any more: whoever waits for an introduction waits forever.
func (v *V17stTable) LoopDead() <-chan struct{} { return v.dead }

// LoopPanic is the panic that killed the introducer loop ("" while it is alive).
func (v *V17stTable) LoopPanic() string {
	select {
	case <-v.dead:
		return v.loopPanic
	default:
		return ""
	}
}

// Close is tsTable.Close (stops the introducer loop, closes the sidx instances).
func (v *V17stTable) Close() {
	if v.closed {
		return
	}
	v.closed = true
	_ = v.tst.Close()
}

// V17stKey is the ordering key of span key k in the i-th index.
func V17stKey(i int, k int64) int64 { return k*int64(i+2) + int64(i) }

// V17stPayload is the stored payload of a span.
func V17stPayload(s V17stSpan) []byte {
	head := "payload-" + s.ID
	if s.Pad <= len(head) {
		return []byte(head)
	}
	b := make([]byte, s.Pad)
	copy(b, head)
	for i := len(head); i < len(b); i++ {
		b[i] = byte(i*131 + len(s.ID)*7)
	}
	return b
}

// Write adds one batch the way the liaison write path does: traces + one sidx memory part per index
// (ConvertToMemPart) -> mustAddTracesWithSegmentID -> mustAddMemPart -> introducer loop.
func (v *V17stTable) Write(spans []V17stSpan) {
	tst := v.tst
	ts := generateTraces()
	reqs := make([][]sidx.WriteRequest, len(v.Idx))
	for _, s := range spans {
		ts.traceIDs = append(ts.traceIDs, s.Trace)
		ts.timestamps = append(ts.timestamps, s.TS)
		tv := generateTagValue()
		tv.tag, tv.valueType, tv.value = "t", pbv1.ValueTypeStr, []byte(s.ID)
		ts.tags = append(ts.tags, []*tagValue{tv})
		ts.spans = append(ts.spans, V17stPayload(s))
		ts.spanIDs = append(ts.spanIDs, s.ID)
		for i := range v.Idx {
			data := make([]byte, len(s.Trace)+1)
			data[0] = byte(idFormatV1)
			copy(data[1:], s.Trace)
			reqs[i] = append(reqs[i], sidx.WriteRequest{Data: data, SeriesID: V17stSeries, Key: V17stKey(i, s.Key)})
		}
	}
	m := map[string]*sidx.MemPart{}
	for i, name := range v.Idx {
		inst, err := tst.getOrCreateSidx(name)
		if err != nil {
			panic(err)
		}
		minTS, maxTS := v.segStart.UnixNano(), v.segEnd.UnixNano()
		smp, err := inst.ConvertToMemPart(reqs[i], v.segStart.UnixNano(), &minTS, &maxTS)
		if err != nil {
			panic(err)
		}
		m[name] = smp
	}
	tst.mustAddTracesWithSegmentID(ts, v.segStart.UnixNano(), m, nil)
	releaseTraces(ts)
}

// Flush is the real tsTable.flush on the current snapshot (core part files, then sidx.Flush of the same ids).
func (v *V17stTable) Flush() {
	snp := v.tst.currentSnapshot()
	if snp == nil {
		return
	}
	defer snp.decRef()
	v.tst.flush(snp, v.flushCh)
}

// V17stPart describes one part: Index "" = core part, otherwise the sidx part of that index.
type V17stPart struct {
	Index string
	Path  string
	ID    uint64
	Mem   bool
}

// Parts lists the core parts of the current snapshot and the parts of the current snapshot of every loaded index.
func (v *V17stTable) Parts() (parts []V17stPart, epoch uint64) {
	snp := v.tst.currentSnapshot()
	if snp != nil {
		for _, pw := range snp.parts {
			p := V17stPart{ID: pw.ID(), Mem: pw.mp != nil}
			if pw.p != nil {
				p.Path = pw.p.path
			}
			parts = append(parts, p)
		}
		epoch = snp.epoch
		snp.decRef()
	}
	all := v.tst.getAllSidx()
	names := make([]string, 0, len(all))
	for n := range all {
		names = append(names, n)
	}
	sort.Strings(names)
	for _, n := range names {
		ids, mem := sidx.C04Parts(all[n])
		for i := range ids {
			parts = append(parts, V17stPart{Index: n, ID: ids[i], Mem: mem[i], Path: filepath.Join(v.tst.root, sidxDirName, n, partName(ids[i]))})
		}
	}
	return parts, epoch
}

// PartDir is the directory of a core file part.
func (v *V17stTable) PartDir(id uint64) string { return partPath(v.tst.root, id) }

// Read returns the spans of the given traces through the trace-id query pipeline (C13Table.Query) and every physical
// entry of every loaded index (sidx raw scan), as canonical lines.
func (v *V17stTable) Read(traceIDs []string) (rows []string, err error) {
	defer func() {
		if p := recover(); p != nil {
			err = fmt.Errorf("panic in read path: %v", p)
		}
	}()
	obs, err := (&C13Table{tst: v.tst}).Query(traceIDs)
	if err != nil {
		return nil, err
	}
	for tid, l := range obs {
		for _, o := range l {
			rows = append(rows, fmt.Sprintf("span %s/%s/%s/%d/%s", tid, o.ID, o.Tag, o.PayloadLen, o.Payload))
		}
	}
	all := v.tst.getAllSidx()
	for name, inst := range all {
		name := name
		err = sidx.C13ScanAll(context.Background(), inst, func(r sidx.RawRow) error {
			id, derr := decodeTraceID(r.Data)
			if derr != nil {
				id = fmt.Sprintf("undecodable:%x", r.Data)
			}
			rows = append(rows, fmt.Sprintf("index %s %s@%d/%d", name, id, r.Key, r.SeriesID))
			return nil
		})
		if err != nil {
			return rows, err
		}
	}
	sort.Strings(rows)
	return rows, nil
}

// ---------------------------------------------------------------------------------------------------------------
// receiver side

type v17stGroup struct {
	resourceSchema.Group
	db io.Closer
}

func (g *v17stGroup) SupplyTSDB() io.Closer { return g.db }

type v17stRepo struct {
	resourceSchema.Repository
	h *V17stHandler
}

func (r *v17stRepo) LoadGroup(name string) (resourceSchema.Group, bool) {
	if name != r.h.Group {
		return nil, false
	}
	return &v17stGroup{db: &v17stTSDB{h: r.h}}, true
}

type v17stTSDB struct {
	storage.TSDB[*tsTable, option]
	h *V17stHandler
}

func (d *v17stTSDB) Close() error { return nil }

func (d *v17stTSDB) SegmentInterval() storage.IntervalRule {
	return storage.IntervalRule{Unit: storage.DAY, Num: 1}
}

func (d *v17stTSDB) Tick(int64) {}

func (d *v17stTSDB) CreateSegmentIfNotExist(time.Time) (storage.Segment[*tsTable, option], error) {
	atomic.AddInt64(&d.h.SegRefs, 1)
	return &v17stSeg{h: d.h}, nil
}

type v17stSeg struct {
	storage.Segment[*tsTable, option]
	h *V17stHandler
}

func (s *v17stSeg) DecRef() { atomic.AddInt64(&s.h.SegRefs, -1) }

func (s *v17stSeg) CreateTSTableIfNotExist(common.ShardID) (*tsTable, error) { return s.h.tab.tst, nil }

// V17stHandler is the trace part-sync handler of a data node bound to one table.
type V17stHandler struct {
	tab     *V17stTable
	cb      queue.ChunkedSyncHandler
	Group   string
	SegRefs int64 // segment pins currently held by sync contexts
}

// Handler returns the real chunked-sync handler (trace.setUpChunkedSyncCallback) writing into this table.
func (v *V17stTable) Handler() *V17stHandler {
	h := &V17stHandler{tab: v, Group: v.tst.group}
	sr := &schemaRepo{Repository: &v17stRepo{h: h}, l: logger.GetLogger("verif")}
	h.cb = setUpChunkedSyncCallback(logger.GetLogger("verif"), sr)
	return h
}

// Callback is the queue.ChunkedSyncHandler to register with the sub server.
func (h *V17stHandler) Callback() queue.ChunkedSyncHandler { return h.cb }

// ---------------------------------------------------------------------------------------------------------------
// sender side

type v17stClient struct {
	queue.Client
	mk func(node string, chunkSize uint32) (queue.ChunkedSyncClient, error)
}

func (c *v17stClient) NewChunkedSyncClient(node string, chunkSize uint32) (queue.ChunkedSyncClient, error) {
	return c.mk(node, chunkSize)
}

// SyncSnapshot runs the body of one syncLoop iteration: tsTable.syncSnapshot on the current snapshot.
func (v *V17stTable) SyncSnapshot(node string, mk func(node string, chunkSize uint32) (queue.ChunkedSyncClient, error)) (err error) {
	defer func() {
		if p := recover(); p != nil {
			err = fmt.Errorf("panic in syncSnapshot: %v", p)
		}
	}()
	v.tst.option.tire2Client = &v17stClient{mk: mk}
	v.tst.getNodes = func() []string { return []string{node} }
	snp := v.tst.currentSnapshot()
	if snp == nil {
		return nil
	}
	defer snp.decRef()
	return v.tst.syncSnapshot(snp, v.syncCh)
}

// V17stStreamName maps (part type, stream-level file name) of the sync protocol to the on-disk file name of the part.
func V17stStreamName(partType, name string) string {
	if partType != PartTypeCore {
		switch {
		case name == sidx.SidxMetaName, name == sidx.SidxPrimaryName, name == sidx.SidxDataName, name == sidx.SidxKeysName:
			return name + ".bin"
		case strings.HasPrefix(name, sidx.TagDataPrefix):
			return name[len(sidx.TagDataPrefix):] + ".td"
		case strings.HasPrefix(name, sidx.TagMetadataPrefix):
			return name[len(sidx.TagMetadataPrefix):] + ".tm"
		case strings.HasPrefix(name, sidx.TagFilterPrefix):
			return name[len(sidx.TagFilterPrefix):] + ".tf"
		}
		return "?" + name
	}
	switch {
	case name == traceMetaName:
		return metaFilename
	case name == tracePrimaryName:
		return primaryFilename
	case name == traceSpansName:
		return spansFilename
	case name == traceIDFilterFilename, name == tagTypeFilename:
		return name
	case strings.HasPrefix(name, traceTagsPrefix):
		return name[len(traceTagsPrefix):] + tagsFilenameExt
	case strings.HasPrefix(name, traceTagMetadataPrefix):
		return name[len(traceTagMetadataPrefix):] + tagsMetadataFilenameExt
	}
	return "?" + name
}

// SkipPartIDs advances the table's part-id counter by n, as n earlier flushes / merges would have: the next part gets
// id current+n+1 (round 2: sender parts whose id reads differently in decimal and in the 16-digit hex directory name).
func (v *V17stTable) SkipPartIDs(n uint64) { atomic.AddUint64(&v.tst.curPartID, n) }
