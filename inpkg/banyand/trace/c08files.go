//go:build verif

package trace

// C08 round 2: real FILE parts (memPart.mustInitFromTraces + mustFlush, reopened with mustOpenFilePart as a data node
// does on start-up) whose optional traceID.filter side file is present / absent / zero-length, published in a snapshot
// and queried by trace id: snapshot.getParts + partIter, and the part selection of the vectorized query pipeline.

import (
	"fmt"
	"os"
	"path/filepath"

	"github.com/apache/skywalking-banyandb/pkg/fs"
	pbv1 "github.com/apache/skywalking-banyandb/pkg/pb/v1"
)

// VC08Span is one span to store.
type VC08Span struct {
	TraceID string
	Ts      int64
}

// VC08FilePartSpec is one file part: its spans and the state of its traceID.filter side file when it is (re)opened.
type VC08FilePartSpec struct {
	Spans    []VC08Span
	SideFile string // "present" | "absent" | "empty"
}

// VC08FileParts is a snapshot of reopened file parts.
type VC08FileParts struct {
	snp   *snapshot
	index map[*part]int
}

// VC08OpenFileParts writes every part below root, applies the side-file state and reopens it.
func VC08OpenFileParts(root string, specs []VC08FilePartSpec) (fp *VC08FileParts, err error) {
	defer func() {
		if r := recover(); r != nil {
			err = fmt.Errorf("panic: %v", r)
		}
	}()
	lfs := fs.NewLocalFileSystem()
	fp = &VC08FileParts{snp: &snapshot{ref: 1}, index: map[*part]int{}}
	for i, spec := range specs {
		id := uint64(i + 1)
		ts := &traces{}
		for j, s := range spec.Spans {
			ts.traceIDs = append(ts.traceIDs, s.TraceID)
			ts.timestamps = append(ts.timestamps, s.Ts)
			ts.spans = append(ts.spans, []byte(fmt.Sprintf("span-%d-%d", i, j)))
			ts.spanIDs = append(ts.spanIDs, fmt.Sprintf("s%d-%d", i, j))
			ts.tags = append(ts.tags, []*tagValue{{tag: "svc", valueType: pbv1.ValueTypeStr, value: []byte("x")}})
		}
		mp := &memPart{}
		mp.mustInitFromTraces(ts)
		mp.partMetadata.ID = id
		pp := partPath(root, id)
		mp.mustFlush(lfs, pp)
		side := filepath.Join(pp, traceIDFilterFilename)
		switch spec.SideFile {
		case "absent":
			if rerr := os.Remove(side); rerr != nil && !os.IsNotExist(rerr) {
				return nil, rerr
			}
		case "empty":
			if werr := os.WriteFile(side, nil, 0o600); werr != nil {
				return nil, werr
			}
		}
		p := mustOpenFilePart(id, root, lfs)
		fp.index[p] = i
		fp.snp.parts = append(fp.snp.parts, newPartWrapper(nil, p))
	}
	return fp, nil
}

// HasFilter reports per part whether a trace-id filter is attached after the reopen.
func (fp *VC08FileParts) HasFilter() []bool {
	out := make([]bool, len(fp.snp.parts))
	for i, pw := range fp.snp.parts {
		out[i] = pw.p.traceIDFilter.filter != nil
	}
	return out
}

// Query runs snapshot.getParts (time bounds + trace-id pruning) and the real partIter over every selected part; it
// returns the selected part indexes and the spans found per (part, trace id).
func (fp *VC08FileParts) Query(traceIDs []string, minTs, maxTs int64) (sel []int, found map[string]uint64, err error) {
	defer func() {
		if r := recover(); r != nil {
			err = fmt.Errorf("panic: %v", r)
		}
	}()
	found = map[string]uint64{}
	parts, _ := fp.snp.getParts(nil, minTs, maxTs, traceIDs)
	for _, p := range parts {
		sel = append(sel, fp.index[p])
		bma := generateBlockMetadataArray()
		pi := &partIter{}
		pi.init(bma, p, traceIDs)
		for pi.nextBlock() {
			found[fmt.Sprintf("%d/%s", fp.index[p], pi.curBlock.traceID)] += pi.curBlock.count
		}
		ierr := pi.error()
		releaseBlockMetadataArray(bma)
		if ierr != nil {
			return sel, found, ierr
		}
	}
	return sel, found, nil
}

// SelectVectorized runs the part selection of the vectorized query pipeline (selectVectorizedTraceParts) for a batch of
// trace ids the ordered index attributed to the parts listed in owner (part index -> ids; index -1 = a part that is
// not in the snapshot any more). It returns, per selected part index, the ids the part will be asked for.
func (fp *VC08FileParts) SelectVectorized(owner map[int][]string) (out map[int][]string, err error) {
	defer func() {
		if r := recover(); r != nil {
			err = fmt.Errorf("panic: %v", r)
		}
	}()
	b := traceBatch{traceIDs: map[uint64][]string{}}
	for pi, ids := range owner {
		b.traceIDs[uint64(pi+1)] = append([]string(nil), ids...)
	}
	parts, grouped, _ := selectVectorizedTraceParts(b, []*snapshot{fp.snp})
	out = map[int][]string{}
	for i, p := range parts {
		out[fp.index[p]] = grouped[i]
	}
	return out, nil
}

// Close releases the parts.
func (fp *VC08FileParts) Close() {
	defer func() { _ = recover() }()
	fp.snp.decRef()
}
