//go:build verif

package property

import (
	"github.com/apache/skywalking-banyandb/banyand/property/db"
	"github.com/apache/skywalking-banyandb/pkg/bus"
	"github.com/apache/skywalking-banyandb/pkg/logger"
)

// VerifC18Listeners returns the data node's real bus listeners (update, delete, query, repair) bound to the given
// property database, exactly as service.PreRun subscribes them, without the rest of the service.
func VerifC18Listeners(d db.Database, nodeID string) (update, del, query, repair bus.MessageListener) {
	l := logger.GetLogger("property-c18")
	s := &service{db: d, l: l, nodeID: nodeID}
	return &updateListener{s: s, l: l, path: "/", maxDiskUsagePercent: 100},
		&deleteListener{s: s}, &queryListener{s: s}, &repairListener{s: s}
}
