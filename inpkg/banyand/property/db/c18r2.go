//go:build verif

package db

import (
	"context"
	"crypto/sha256"
	"fmt"
	"os"
	"path"
	"path/filepath"
	"sort"

	"github.com/RoaringBitmap/roaring"
	"github.com/blugelabs/bluge"
	segment "github.com/blugelabs/bluge_segment_api"
)

// C18 round-2 wrappers: (e) the index merge hook shard.prepareForMerge on the documents a real shard has persisted,
// (t) the Merkle-tree build (repair.buildStatus / repairScheduler.doBuildTree / buildingTree) with a context that is
// canceled at a chosen poll. No decisions of their own.

// VerifC18StoredDoc is one persisted document of a shard in document order.
type VerifC18StoredDoc struct {
	ID         string
	Number     uint64
	DeleteTime []byte // raw stored value of the _deleted field (nil = field absent)
}

// verifC18Seg presents a range of the documents of a real bluge reader (opened on a file snapshot of the shard's
// index, the same way repair.buildTree opens one) as one index segment. shard.prepareForMerge asks a segment for
// Count and VisitStoredFields only.
type verifC18Seg struct {
	segment.Segment
	r    *bluge.Reader
	nums []uint64
}

func (s *verifC18Seg) Count() uint64 { return uint64(len(s.nums)) }

func (s *verifC18Seg) VisitStoredFields(num uint64, visitor segment.StoredFieldVisitor) error {
	return s.r.VisitStoredFields(s.nums[num], bluge.StoredFieldVisitor(visitor))
}

// VerifC18MergeHook takes a file snapshot of the shard's index into snapDir, lists its documents in document order,
// cuts that list into segments at the given positions and hands them to the REAL shard.prepareForMerge (the index's
// PrepareMergeCallback). It returns the documents and the positions (indices into docs) the hook asks the index to
// drop physically.
func VerifC18MergeHook(ctx context.Context, d Database, group string, shardID uint32, snapDir string, cuts []int,
) (docs []VerifC18StoredDoc, dropped []int, err error) {
	s, err := verifC18Shard(ctx, d, group, shardID)
	if err != nil {
		return nil, nil, err
	}
	if err = os.MkdirAll(snapDir, 0o755); err != nil {
		return nil, nil, err
	}
	if err = s.store.TakeFileSnapshot(snapDir); err != nil {
		return nil, nil, fmt.Errorf("snapshot: %w", err)
	}
	reader, err := bluge.OpenReader(bluge.DefaultConfig(snapDir))
	if err != nil {
		return nil, nil, fmt.Errorf("open reader: %w", err)
	}
	defer reader.Close()
	it, err := reader.Search(ctx, bluge.NewAllMatches(bluge.NewMatchAllQuery()))
	if err != nil {
		return nil, nil, err
	}
	var nums []uint64
	for m, nerr := it.Next(); ; m, nerr = it.Next() {
		if nerr != nil {
			return nil, nil, nerr
		}
		if m == nil {
			break
		}
		nums = append(nums, m.Number)
	}
	sort.Slice(nums, func(i, j int) bool { return nums[i] < nums[j] })
	for _, n := range nums {
		sd := VerifC18StoredDoc{Number: n}
		verr := reader.VisitStoredFields(n, func(field string, value []byte) bool {
			switch field {
			case "_id":
				sd.ID = string(value)
			case deleteField:
				sd.DeleteTime = append([]byte{}, value...)
			}
			return true
		})
		if verr != nil {
			return nil, nil, verr
		}
		docs = append(docs, sd)
	}
	var segs []segment.Segment
	var starts []int
	lo := 0
	for _, c := range append(append([]int{}, cuts...), len(nums)) {
		if c <= lo || c > len(nums) {
			continue
		}
		segs = append(segs, &verifC18Seg{r: reader, nums: nums[lo:c]})
		starts = append(starts, lo)
		lo = c
	}
	if len(segs) == 0 {
		return docs, nil, nil
	}
	dest, err := s.prepareForMerge(make([]*roaring.Bitmap, len(segs)), segs, 1)
	if err != nil {
		return nil, nil, err
	}
	for i, bm := range dest {
		if bm == nil {
			continue
		}
		for _, local := range bm.ToArray() {
			dropped = append(dropped, starts[i]+int(local))
		}
	}
	sort.Ints(dropped)
	return docs, dropped, nil
}

// verifC18FaultCtx is a context that reports cancellation from its at-th poll (Done or Err) on: a deterministic
// stand-in for "the scheduler's closer is closed while the build is running".
type verifC18FaultCtx struct {
	context.Context
	ch      chan struct{}
	polls   int
	at      int
	tripped bool
}

func (c *verifC18FaultCtx) poll() {
	if !c.tripped && c.at >= 0 && c.polls >= c.at {
		c.tripped = true
		close(c.ch)
	}
	c.polls++
}

func (c *verifC18FaultCtx) Done() <-chan struct{} {
	c.poll()
	return c.ch
}

func (c *verifC18FaultCtx) Err() error {
	c.poll()
	if c.tripped {
		return context.Canceled
	}
	return nil
}

// VerifC18TreeBuildWithFault is one run of repairScheduler.buildingTree for one shard (tree lock, the configured
// snapshot function, repair.buildStatus on the shard's snapshot directory) in which the context handed to
// buildStatus - in production the scheduler's closer context - is canceled from its faultAt-th poll on
// (faultAt < 0: never). pageSize replaces the paging size of the tree build so that small shards span several pages.
func VerifC18TreeBuildWithFault(ctx context.Context, d Database, group string, shardID uint32, faultAt, pageSize int,
) (polls int, tripped bool, buildErr error, err error) {
	dbi := d.(*database)
	sch := dbi.repairScheduler
	if sch == nil {
		return 0, false, nil, fmt.Errorf("repair scheduler is not enabled")
	}
	s, err := verifC18Shard(ctx, d, group, shardID)
	if err != nil {
		return 0, false, nil, err
	}
	sch.treeLocker.Lock()
	defer sch.treeLocker.Unlock()
	snapshotPath, err := sch.buildSnapshotFunc(ctx)
	if err != nil {
		return 0, false, nil, fmt.Errorf("taking snapshot failure: %w", err)
	}
	if pageSize > 0 {
		s.repairState.batchSearchSize = pageSize
	}
	fctx := &verifC18FaultCtx{Context: ctx, ch: make(chan struct{}), at: faultAt}
	buildErr = s.repairState.buildStatus(fctx, path.Join(snapshotPath, group, fmt.Sprintf("shard-%d", shardID)))
	return fctx.polls, fctx.tripped, buildErr, nil
}

// VerifC18TreeTick is one firing of the scheduler's build-tree task: repairScheduler.doBuildTree (checkHasUpdates,
// then buildingTree when something changed).
func VerifC18TreeTick(d Database) error { return d.(*database).repairScheduler.doBuildTree() }

// VerifC18TreeForce rebuilds the trees unconditionally: repairScheduler.buildingTree(nil, "", true).
func VerifC18TreeForce(d Database) error {
	return d.(*database).repairScheduler.buildingTree(nil, "", true)
}

// VerifC18TreeState reads what the gossip protocol compares first, the root hash of the shard's tree file (through
// repair.treeReader), a digest of the whole tree file, and repair.checkHasUpdates.
func VerifC18TreeState(ctx context.Context, d Database, group string, shardID uint32,
) (root string, fileDigest string, exists bool, hasUpdates bool, err error) {
	s, err := verifC18Shard(ctx, d, group, shardID)
	if err != nil {
		return "", "", false, false, err
	}
	hasUpdates, err = s.repairState.checkHasUpdates()
	if err != nil {
		return "", "", false, false, err
	}
	tr, err := s.repairState.treeReader()
	if err != nil {
		return "", "", false, hasUpdates, err
	}
	if tr == nil {
		return "", "", false, hasUpdates, nil
	}
	defer tr.close()
	nodes, err := tr.read(nil, 1, false)
	if err != nil {
		return "", "", true, hasUpdates, err
	}
	if len(nodes) == 1 {
		root = nodes[0].shaValue
	}
	raw, err := os.ReadFile(s.repairState.composeTreeFilePath)
	if err != nil {
		return root, "", true, hasUpdates, err
	}
	return root, fmt.Sprintf("%x", sha256.Sum256(raw)), true, hasUpdates, nil
}

// VerifC18IndexFiles counts the segment and snapshot files of the shard's index directory (synchronisation only).
func VerifC18IndexFiles(ctx context.Context, d Database, group string, shardID uint32) (segs, snps int) {
	s, err := verifC18Shard(ctx, d, group, shardID)
	if err != nil {
		return -1, -1
	}
	a, _ := filepath.Glob(filepath.Join(s.location, "*.seg"))
	b, _ := filepath.Glob(filepath.Join(s.location, "*.snp"))
	return len(a), len(b)
}
