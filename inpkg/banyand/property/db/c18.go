//go:build verif

package db

import (
	"context"
	"fmt"
	"io"

	grpclib "google.golang.org/grpc"
	"google.golang.org/protobuf/encoding/protojson"

	"github.com/apache/skywalking-banyandb/api/common"
	propertyv1 "github.com/apache/skywalking-banyandb/api/proto/banyandb/property/v1"
	"github.com/apache/skywalking-banyandb/banyand/observability"
	"github.com/apache/skywalking-banyandb/pkg/logger"
)

// C18 wrappers: thin access to the unexported replica-level step functions used by the gossip repair.
// No logic of their own: every decision is taken by shard.repair / repairGossipBase.queryProperty / shard.search.

// VerifC18Doc is one stored document (one revision of one property) as shard.repair hands it back.
type VerifC18Doc struct {
	ID         string
	Source     []byte
	Timestamp  int64
	DeleteTime int64
}

func verifC18Shard(ctx context.Context, d Database, group string, shardID uint32) (*shard, error) {
	dbi, ok := d.(*database)
	if !ok {
		return nil, fmt.Errorf("not a *database: %T", d)
	}
	return dbi.loadShard(ctx, group, common.ShardID(shardID))
}

// VerifC18GossipLatest is what a gossip peer sends for an entity: repairGossipBase.queryProperty (the function used by
// repairGossipClient.queryPropertyAndSendToServer and repairGossipServer.processPropertyMissing) followed by the
// same GetPropertyID(p) the sender puts on the wire.
func VerifC18GossipLatest(ctx context.Context, d Database, group string, shardID uint32, name, eid string,
) (id []byte, p *propertyv1.Property, deleteTime int64, found bool, err error) {
	s, err := verifC18Shard(ctx, d, group, shardID)
	if err != nil {
		return nil, nil, 0, false, err
	}
	b := &repairGossipBase{}
	leaf := s.repairState.buildLeafNodeEntity(group, name, eid)
	qp, prop, err := b.queryProperty(ctx, s, leaf)
	if err != nil {
		return nil, nil, 0, false, err
	}
	if qp == nil {
		return nil, nil, 0, false, nil
	}
	return GetPropertyID(prop), prop, qp.deleteTime, true, nil
}

// VerifC18Repair is the receiver side of a gossip property sync: shard.repair (what executeRepairWithBudget calls,
// minus metrics and the 10 s context budget). newer is the receiver's own document when it refused the update.
func VerifC18Repair(ctx context.Context, d Database, group string, shardID uint32, id []byte, p *propertyv1.Property, deleteTime int64,
) (updated bool, newer *VerifC18Doc, err error) {
	s, err := verifC18Shard(ctx, d, group, shardID)
	if err != nil {
		return false, nil, err
	}
	u, n, err := s.repair(ctx, id, p, deleteTime)
	if err != nil {
		return false, nil, err
	}
	if n != nil {
		newer = &VerifC18Doc{ID: string(n.id), Source: n.source, Timestamp: n.timestamp, DeleteTime: n.deleteTime}
	}
	return u, newer, nil
}

// verifC18Stream is the server side of the gossip Repair stream with the transport removed: what the server Sends is
// queued for the initiator.
type verifC18Stream struct {
	grpclib.ServerStream
	ctx  context.Context
	sent []*propertyv1.RepairResponse
}

func (s *verifC18Stream) Context() context.Context { return s.ctx }

func (s *verifC18Stream) Send(r *propertyv1.RepairResponse) error {
	s.sent = append(s.sent, r)
	return nil
}

func (s *verifC18Stream) Recv() (*propertyv1.RepairRequest, error) { return nil, io.EOF }

var verifC18Sched = &repairScheduler{
	l:       logger.GetLogger("c18-gossip"),
	metrics: newRepairSchedulerMetrics(observability.BypassRegistry.With(observability.RootScope.SubScope("c18_gossip"))),
}

// VerifC18GossipSession runs the per-property part of one gossip repair session between an initiator (gossip client)
// and a contacted replica (gossip server) for one entity, without the Merkle tree walk and without the transport:
//
//	initiator: repairGossipBase.queryProperty (as queryPropertyAndSendToServer) -> PropertySync, or PropertyMissing
//	           when it has no copy (as sendPropertyMissing)
//	server:    the REAL repairGossipServer.processPropertySync / processPropertyMissing; whatever they Send is queued
//	initiator: for every queued PropertySync the statements of repairGossipClient.Rev's PropertySync case:
//	           executeRepairWithBudget; if refused with an own newer copy and From != MISSING, send that copy to the
//	           server (processPropertySync again)
//
// As the tree comparison would, the session is skipped when both sides' newest documents are identical. rounds is the
// number of server calls; the session is cut (cut=true) after 8, which the protocol never needs.
func VerifC18GossipSession(ctx context.Context, initiator, server Database, group string, shardID uint32, name, eid string,
) (rounds int, trace []string, cut bool, err error) {
	is, err := verifC18Shard(ctx, initiator, group, shardID)
	if err != nil {
		return 0, nil, false, err
	}
	ss, err := verifC18Shard(ctx, server, group, shardID)
	if err != nil {
		return 0, nil, false, err
	}
	srv := newRepairGossipServer(verifC18Sched)
	cli := &repairGossipBase{scheduler: verifC18Sched}
	st := &verifC18Stream{ctx: ctx}
	leaf := is.repairState.buildLeafNodeEntity(group, name, eid)
	iq, ip, err := cli.queryProperty(ctx, is, leaf)
	if err != nil {
		return 0, nil, false, err
	}
	sq, _, err := cli.queryProperty(ctx, ss, leaf)
	if err != nil {
		return 0, nil, false, err
	}
	switch {
	case iq == nil && sq == nil:
		return 0, []string{"both-empty"}, false, nil
	case iq != nil && sq != nil && iq.timestamp == sq.timestamp && iq.deleteTime == sq.deleteTime && string(iq.source) == string(sq.source):
		return 0, []string{"identical-leaf"}, false, nil
	case iq == nil:
		trace = append(trace, "missing")
		srv.processPropertyMissing(ctx, ss, &propertyv1.PropertyMissing{Entity: leaf}, st)
		rounds++
	default:
		trace = append(trace, "sync")
		srv.processPropertySync(ctx, ss, &propertyv1.PropertySync{Id: GetPropertyID(ip), Property: ip, DeleteTime: iq.deleteTime}, st, group)
		rounds++
	}
	for len(st.sent) > 0 {
		resp := st.sent[0]
		st.sent = st.sent[1:]
		sync := resp.GetPropertySync()
		if sync == nil {
			return rounds, trace, false, fmt.Errorf("unexpected server message %T", resp.Data)
		}
		updated, newer, rerr := cli.executeRepairWithBudget(ctx, is, sync.Property.Id, sync.Property.Property, sync.Property.DeleteTime, group)
		if rerr != nil {
			return rounds, trace, false, rerr
		}
		trace = append(trace, fmt.Sprintf("reply:from=%s,initiator-updated=%v", sync.From, updated))
		if !updated && newer != nil && sync.From != propertyv1.PropertySyncFromType_PROPERTY_SYNC_FROM_TYPE_MISSING {
			if rounds >= 8 {
				return rounds, trace, true, nil
			}
			var p propertyv1.Property
			if uerr := protojson.Unmarshal(newer.source, &p); uerr != nil {
				return rounds, trace, false, uerr
			}
			trace = append(trace, "initiator-sends-own-newer")
			srv.processPropertySync(ctx, ss, &propertyv1.PropertySync{Id: newer.id, Property: &p, DeleteTime: newer.deleteTime}, st, group)
			rounds++
		}
	}
	return rounds, trace, false, nil
}
