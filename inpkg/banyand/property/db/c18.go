//go:build verif

package db

import (
	"context"
	"fmt"

	"github.com/apache/skywalking-banyandb/api/common"
	propertyv1 "github.com/apache/skywalking-banyandb/api/proto/banyandb/property/v1"
)

// C18 wrappers: thin access to the unexported replica-level step functions used by the gossip repair.
// No logic of their own: every decision is taken by shard.repair / repairGossipBase.queryProperty / shard.search.

// VerifC18Doc is one stored document (one revision of one property) as shard.repair hands it back.
type VerifC18Doc struct {
	ID         string
	Source     []byte
	Timestamp  int64
	DeleteTime int64
}

func verifC18Shard(ctx context.Context, d Database, group string, shardID uint32) (*shard, error) {
	dbi, ok := d.(*database)
	if !ok {
		return nil, fmt.Errorf("not a *database: %T", d)
	}
	return dbi.loadShard(ctx, group, common.ShardID(shardID))
}

// VerifC18GossipLatest is what a gossip peer sends for an entity: repairGossipBase.queryProperty (the function used by
// repairGossipClient.queryPropertyAndSendToServer and repairGossipServer.processPropertyMissing) followed by the
// same GetPropertyID(p) the sender puts on the wire.
func VerifC18GossipLatest(ctx context.Context, d Database, group string, shardID uint32, name, eid string,
) (id []byte, p *propertyv1.Property, deleteTime int64, found bool, err error) {
	s, err := verifC18Shard(ctx, d, group, shardID)
	if err != nil {
		return nil, nil, 0, false, err
	}
	b := &repairGossipBase{}
	leaf := s.repairState.buildLeafNodeEntity(group, name, eid)
	qp, prop, err := b.queryProperty(ctx, s, leaf)
	if err != nil {
		return nil, nil, 0, false, err
	}
	if qp == nil {
		return nil, nil, 0, false, nil
	}
	return GetPropertyID(prop), prop, qp.deleteTime, true, nil
}

// VerifC18Repair is the receiver side of a gossip property sync: shard.repair (what executeRepairWithBudget calls,
// minus metrics and the 10 s context budget). newer is the receiver's own document when it refused the update.
func VerifC18Repair(ctx context.Context, d Database, group string, shardID uint32, id []byte, p *propertyv1.Property, deleteTime int64,
) (updated bool, newer *VerifC18Doc, err error) {
	s, err := verifC18Shard(ctx, d, group, shardID)
	if err != nil {
		return false, nil, err
	}
	u, n, err := s.repair(ctx, id, p, deleteTime)
	if err != nil {
		return false, nil, err
	}
	if n != nil {
		newer = &VerifC18Doc{ID: string(n.id), Source: n.source, Timestamp: n.timestamp, DeleteTime: n.deleteTime}
	}
	return u, newer, nil
}
