//go:build verif

package lifecycle

import (
	"context"

	"github.com/apache/skywalking-banyandb/pkg/logger"
	"github.com/apache/skywalking-banyandb/pkg/node"
)

// V16PickAndRun is pickAndRun, the pick + send + retry step the three migration visitors use for every copy of a part
// (streamPartToTargetShard), over a real selector.
func V16PickAndRun(ctx context.Context, sel node.Selector, group string, shardID, replicaID uint32, run func(nodeID string) error) error {
	return pickAndRun(ctx, logger.GetLogger("verif-c16"), sel, group, "", shardID, replicaID, run)
}
